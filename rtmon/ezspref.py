"""Independent EZSP header codec (DESIGN 2.4 / Appendix B) and byte-level encoders for the
frames whose *content* decides a property.  Written from UG100; shares no code with
bellows/ezsp.

Header layouts
  v4     request  [seq, 0x00, id]                 response [seq, fc, id]
  v5-7   request  [seq, 0x00, 0xFF, 0x00, id]     response [seq, fc, 0xFF, 0x00, id]
  v8+    request  [seq, 0x00, 0x01, id_lo, id_hi] response [seq, fc_lo, 0x01, id_lo, id_hi]
  legacy `version` query (first after a reset, any version):
         request  [seq, 0x00, 0x00, desired]      response [seq, 0x80, 0x00, ver, type, lo, hi]
fc of a response: bit 7 set; bits 4:3 = 00 response, 01 synchronous callback, 10 asynchronous
callback.
"""
from __future__ import annotations

FC_RESPONSE = 0x80
FC_CB_ASYNC = 0x90  # response bit + callback type 10b (asynchronous callback)

ID_VERSION = 0x0000
ID_INVALID_COMMAND = 0x0058
EZSP_ERROR_VERSION_NOT_SET = 0x30


def layout(version: int) -> str:
    if version <= 4:
        return "v4"
    if version <= 7:
        return "v5"
    return "v8"


def request_header(version: int, seq: int, frame_id: int) -> bytes:
    lay = layout(version)
    if lay == "v4":
        return bytes([seq & 0xFF, 0x00, frame_id & 0xFF])
    if lay == "v5":
        return bytes([seq & 0xFF, 0x00, 0xFF, 0x00, frame_id & 0xFF])
    return bytes([seq & 0xFF, 0x00, 0x01, frame_id & 0xFF, (frame_id >> 8) & 0xFF])


def response_header(version: int, seq: int, frame_id: int, callback: bool = False) -> bytes:
    fc = FC_CB_ASYNC if callback else FC_RESPONSE
    lay = layout(version)
    if lay == "v4":
        return bytes([seq & 0xFF, fc, frame_id & 0xFF])
    if lay == "v5":
        return bytes([seq & 0xFF, fc, 0xFF, 0x00, frame_id & 0xFF])
    return bytes([seq & 0xFF, fc, 0x01, frame_id & 0xFF, (frame_id >> 8) & 0xFF])


class BadHeader(Exception):
    pass


def parse_request(version: int, data: bytes):
    """Strict NCP-side parse of a request framed for `version` -> (seq, frame_id, body)."""
    lay = layout(version)
    if lay == "v4":
        if len(data) < 3 or data[1] != 0x00:
            raise BadHeader("not a v4 request")
        return data[0], data[2], data[3:]
    if lay == "v5":
        if len(data) < 5 or data[1] != 0x00 or data[2] != 0xFF or data[3] != 0x00:
            raise BadHeader("not a v5-v7 request")
        return data[0], data[4], data[5:]
    if len(data) < 5 or data[1] != 0x00 or data[2] != 0x01:
        raise BadHeader("not a v8+ request")
    return data[0], data[3] | (data[4] << 8), data[5:]


def is_legacy_version_query(data: bytes) -> bool:
    return len(data) == 4 and data[1] == 0x00 and data[2] == 0x00


def which_layouts(data: bytes):
    """Which request layouts a frame is well-formed in (for wire-trace oracles)."""
    out = []
    for v in (4, 5, 8):
        try:
            parse_request(v, data)
            out.append(layout(v))
        except BadHeader:
            pass
    return out


def legacy_version_response(seq: int, version: int, stack_type: int = 2, stack_version: int = 0x6710) -> bytes:
    return bytes([seq & 0xFF, 0x80, 0x00, version & 0xFF, stack_type, stack_version & 0xFF, stack_version >> 8])


def version_response(version: int, seq: int, stack_type: int = 2, stack_version: int = 0x6710) -> bytes:
    return response_header(version, seq, ID_VERSION) + bytes(
        [version & 0xFF, stack_type, stack_version & 0xFF, stack_version >> 8])


def invalid_command(version: int, seq: int, reason: int) -> bytes:
    """invalidCommand: the reason is an 8-bit EzspStatus below v14 and a 32-bit unified status
    from v14 on (then SL_STATUS_ZIGBEE_EZSP_ERROR unless a wider value is given)."""
    if version >= 14:
        r = reason if reason > 0xFF else 0x0C1E
        return response_header(version, seq, ID_INVALID_COMMAND) + bytes([(r >> (8 * i)) & 0xFF for i in range(4)])
    return response_header(version, seq, ID_INVALID_COMMAND) + bytes([reason & 0xFF])


# -- little helpers for byte-level bodies -------------------------------------------------
def u8(v):
    return bytes([v & 0xFF])


def u16(v):
    return bytes([v & 0xFF, (v >> 8) & 0xFF])


def u32(v):
    return bytes([(v >> (8 * i)) & 0xFF for i in range(4)])


def i8(v):
    return bytes([v & 0xFF])


def aps_frame(profile, cluster, src_ep, dst_ep, options, group, seq) -> bytes:
    """EmberApsFrame: profileId u16, clusterId u16, sourceEndpoint u8, destinationEndpoint u8,
    options u16, groupId u16, sequence u8."""
    return u16(profile) + u16(cluster) + u8(src_ep) + u8(dst_ep) + u16(options) + u16(group) + u8(seq)


def parse_aps_frame(b: bytes):
    return dict(profile=b[0] | b[1] << 8, cluster=b[2] | b[3] << 8, src_ep=b[4], dst_ep=b[5],
                options=b[6] | b[7] << 8, group=b[8] | b[9] << 8, seq=b[10]), b[11:]
