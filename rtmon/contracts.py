"""Runtime contracts applied from the harness (no repository edits).

`install_status_contract(acc)` wraps `sl_Status.from_ember_status` with an icontract
postcondition (named condition function, records and returns True so that it never
aborts what it observes).  It is switched on in every workload of C06..C19, so the C18
postcondition is evaluated at thousands of real call sites; evaluations are counted and a
count of zero makes the hosting check say so.
"""
from __future__ import annotations

# numeric tables, independent of the names used in the tree -------------------------------
SL_OK = 0x0000
RETRY_STATUSES = {0x0C03, 0x0034, 0x0019}  # MAX_MESSAGE_LIMIT_REACHED, TRANSMIT_BUSY, ALLOCATION_FAILED
EMBER_FIXED = {
    0x00: {0x0000},  # SUCCESS -> OK
    0x93: {0x0017},  # NOT_JOINED
    0x03: {0x002D},  # NOT_FOUND (legacy "invalid call / not found")
    0xB6: {0x002D},  # TABLE_ENTRY_ERASED -> NOT_FOUND
    0xB1: {0x0027},  # INDEX_OUT_OF_RANGE -> INVALID_INDEX
    0x90: {0x0015},  # NETWORK_UP
    0x91: {0x0016},  # NETWORK_DOWN
    0x72: {0x0C03},  # MAX_MESSAGE_LIMIT_REACHED
    0x18: RETRY_STATUSES,  # NO_BUFFERS -> a status that makes the sender retry
    0xA1: RETRY_STATUSES,  # NETWORK_BUSY -> a status that makes the sender retry
}
EZSP_FIXED = {0x00: {0x0000}}


def family(status) -> str:
    return type(status).__name__


def judge(status, result):
    """Returns None if the C18 postcondition holds for (status -> result), else (key, msg)."""
    import bellows.types as t

    fam = family(status)
    try:
        r = int(result)
    except Exception:  # noqa: BLE001
        return ("C18/result-not-a-status", f"{status!r} -> {result!r}")
    if not isinstance(result, t.sl_Status):
        return ("C18/result-not-unified", f"{status!r} -> {result!r} ({type(result).__name__})")
    if isinstance(status, t.sl_Status):
        if result is not status and not (type(result) is type(status) and r == int(status)):
            return ("C18/unified-changed", f"{status!r} -> {result!r}")
        return None
    s = int(status)
    if (r == SL_OK) != (s == 0):
        return (
            "C18/ok-iff-success",
            f"{fam}(0x{s:02x}) -> {result!r}: OK must be reported exactly for the success code",
        )
    table = EMBER_FIXED if fam == "EmberStatus" else EZSP_FIXED if fam == "EzspStatus" else {}
    want = table.get(s)
    if want is not None and r not in want:
        return (
            f"C18/steering-code/{fam}-0x{s:02x}",
            f"{fam}(0x{s:02x}) -> {result!r}, expected one of {[hex(w) for w in sorted(want)]}",
        )
    return None


def install_status_contract(acc, case_ref=None):
    """Wrap sl_Status.from_ember_status; violations go to `acc`, evaluations are counted."""
    import icontract

    import bellows.types as t
    import bellows.types.named as named

    cls = named.sl_Status
    orig = cls.__dict__["from_ember_status"].__func__
    if getattr(orig, "_rtmon_contract", False):
        return

    def status_postcondition(cls, status, result):  # names match the function's
        acc.contract_evals["from_ember_status"] += 1
        v = judge(status, result)
        if v is not None:
            acc.violation(v[0] + "/live", v[1] + " (observed at a live call site)",
                          {"part": "contract", "status": repr(status),
                           "during": case_ref() if case_ref else None})
        return True

    class StatusContractBroken(Exception):
        pass

    wrapped = icontract.ensure(status_postcondition, error=StatusContractBroken)(orig)
    wrapped._rtmon_contract = True
    type.__setattr__(cls, "from_ember_status", classmethod(wrapped))
    assert t.sl_Status is cls


def install_ash_contracts(acc):
    """icontract postconditions on the ASH byte-stuffing helpers and the adaptive ACK timeout,
    live while the C01 / C02 / C05 workloads run (they are private helpers: when a refactoring
    removes them the contracts simply report zero evaluations)."""
    import icontract

    import bellows.ash as ash

    from . import ashref as R

    cls = ash.AshProtocol

    class AshContractBroken(Exception):
        pass

    if isinstance(cls.__dict__.get("_stuff_bytes"), staticmethod) and not getattr(cls._stuff_bytes, "_rtmon", False):
        orig = cls.__dict__["_stuff_bytes"].__func__

        def stuffed_output_is_clean_and_invertible(data, result):
            acc.contract_evals["stuff_bytes"] += 1
            out = bytes(result)
            if any(b in R.RESERVED and b != R.ESC for b in out):
                acc.violation("C03/contract/stuffed-output-contains-reserved-byte",
                              f"stuffing {bytes(data).hex()} produced {out.hex()}", {"part": "contract"})
            else:
                try:
                    if R.unstuff(out) != bytes(data):
                        acc.violation("C03/contract/stuffing-not-invertible", f"{bytes(data).hex()} -> {out.hex()}", {"part": "contract"})
                except R.Bad:
                    acc.violation("C03/contract/stuffing-not-invertible", f"{bytes(data).hex()} -> {out.hex()} (invalid escape)", {"part": "contract"})
            return True

        w = icontract.ensure(stuffed_output_is_clean_and_invertible, error=AshContractBroken)(orig)
        w._rtmon = True
        cls._stuff_bytes = staticmethod(w)
    if isinstance(cls.__dict__.get("_unstuff_bytes"), staticmethod) and not getattr(cls._unstuff_bytes, "_rtmon", False):
        orig_u = cls.__dict__["_unstuff_bytes"].__func__

        def unstuffed_equals_reference(data, result):
            acc.contract_evals["unstuff_bytes"] += 1
            try:
                want = R.unstuff(bytes(data))
            except R.Bad:
                acc.violation("C02/contract/invalid-escape-accepted", f"unstuffing {bytes(data).hex()} returned {bytes(result).hex()}",
                              {"part": "contract"})
                return True
            if bytes(result) != want:
                acc.violation("C03/contract/unstuffing-differs", f"{bytes(data).hex()} -> {bytes(result).hex()}, reference {want.hex()}",
                              {"part": "contract"})
            return True

        w2 = icontract.ensure(unstuffed_equals_reference, error=AshContractBroken)(orig_u)
        w2._rtmon = True
        cls._unstuff_bytes = staticmethod(w2)
    if callable(cls.__dict__.get("_change_ack_timeout")) and not getattr(cls._change_ack_timeout, "_rtmon", False):
        orig_c = cls.__dict__["_change_ack_timeout"]

        def ack_timeout_within_protocol_bounds(self, new_value, result):
            acc.contract_evals["change_ack_timeout"] += 1
            v = getattr(self, "_t_rx_ack", None)
            if v is not None and not (0.4 - 1e-9 <= v <= 3.2 + 1e-9):
                acc.violation("C05/contract/ack-timeout-outside-protocol-bounds", f"adaptive ACK timeout set to {v}", {"part": "contract"})
            return True

        w3 = icontract.ensure(ack_timeout_within_protocol_bounds, error=AshContractBroken)(orig_c)
        w3._rtmon = True
        cls._change_ack_timeout = w3
