"""Exception families.  The properties name kinds of failure ("raises a timeout", "a delivery error", "the
connection error", "refused"), never concrete classes: an outcome is classified by the most specific *family* it
belongs to (isinstance), so that a sub-class introduced by a refactoring is the same outcome."""
from __future__ import annotations

import asyncio


def family(e) -> str:
    if e is None:
        return "None"
    if isinstance(e, asyncio.CancelledError):
        return "CancelledError"
    if isinstance(e, (TimeoutError, asyncio.TimeoutError)):
        return "TimeoutError"
    try:
        import zigpy.exceptions as ze

        if isinstance(e, ze.DeliveryError):
            return "DeliveryError"
    except Exception:  # noqa: BLE001
        pass
    try:
        import bellows.exception as be

        if isinstance(e, getattr(be, "InvalidCommandError", ())):
            return "InvalidCommandError"
        if isinstance(e, be.EzspError):
            return "EzspError"
    except Exception:  # noqa: BLE001
        pass
    try:
        import bellows.ash as ash

        if isinstance(e, ash.NcpFailure):
            return "NcpFailure"
    except Exception:  # noqa: BLE001
        pass
    for base in (ConnectionError, OSError, TypeError, AttributeError, KeyError, ValueError, AssertionError, RuntimeError):
        if isinstance(e, base):
            return base.__name__
    return type(e).__name__
