"""Deterministic virtual-time asyncio event loop.

`VLoop` is a real `asyncio.SelectorEventLoop` (so tasks, futures, `asyncio.timeout`,
eager tasks, `shield`, `call_at` … are CPython's own), whose clock is virtual: whenever
the loop would block in `select(timeout)` the virtual clock is advanced by exactly that
timeout instead.  A `select(None)` with nothing runnable means that nothing can ever
happen again: `Deadlock` is raised (used by every "never hangs" check).

Schedule model (see DESIGN.md 2.1).  One iteration of `_run_once` runs (1) handles that
were `call_soon`-ed before the iteration started, after having moved timers that are due
to the ready queue.  External events are injected through `call_at`, i.e. they are
timers; `io_at(t, cb)` schedules `cb` *just before* any timer due at exactly `t`
(30 ps earlier; clock resolution is 1 ns so both are collected by the same iteration and
run in this order), `io_after(t, cb)` just after.
"""
from __future__ import annotations

import asyncio
import selectors

EPS = 3e-11


class Deadlock(Exception):
    """The loop would block forever: no ready handle, no timer, no I/O."""


class _VSelector:
    """Wraps a real selector; never blocks; advances the owner's virtual clock."""

    def __init__(self, owner: "VLoop") -> None:
        self._real = selectors.DefaultSelector()
        self._owner = owner

    def select(self, timeout=None):
        events = self._real.select(0)
        if events:
            return events
        if timeout is None:
            raise Deadlock("event loop has nothing left to run")
        if timeout > 0:
            self._owner._vtime += timeout
            self._owner.time_jumps += 1
        return []

    def __getattr__(self, name):
        return getattr(self._real, name)


class VLoop(asyncio.SelectorEventLoop):
    def __init__(self) -> None:
        self._vtime = 100.0
        self.time_jumps = 0
        self._harness = 0
        self.host_timers: list = []  # (when, handle) of timers created by the code under test
        super().__init__(selector=_VSelector(self))
        self._clock_resolution = 1e-9

    def call_at(self, when, callback, *args, context=None):
        h = super().call_at(when, callback, *args, context=context)
        if not self._harness:
            self.host_timers.append((when, h))
            if len(self.host_timers) > 64:
                del self.host_timers[:32]
        return h

    def pending_host_timers(self):
        """Deadlines (> now) of not-yet-cancelled timers created by the code under test."""
        return sorted(w for w, h in self.host_timers if not h.cancelled() and w > self._vtime)

    def time(self) -> float:
        return self._vtime

    # -- injection helpers ------------------------------------------------------------
    def io_at(self, when: float, cb, *args):
        """Run cb as an external event at virtual instant `when`, before timers due then."""
        self._harness += 1
        try:
            return self.call_at(max(when - EPS, self._vtime), cb, *args)
        finally:
            self._harness -= 1

    def io_in(self, delay: float, cb, *args):
        return self.io_at(self._vtime + delay, cb, *args)

    def io_after(self, when: float, cb, *args):
        """Run cb in the first iteration after timers due at `when` (and their wake-ups)."""
        self._harness += 1
        try:
            return self.call_at(when + 2e-9, cb, *args)
        finally:
            self._harness -= 1

    def h_call_later(self, delay, cb, *args):
        """call_later for harness-side models (not recorded as a host timer)."""
        self._harness += 1
        try:
            return self.call_at(self._vtime + delay, cb, *args)
        finally:
            self._harness -= 1


class VClock:
    """Stand-in for the `time` module inside bellows.ash / bellows.ezsp.protocol."""

    def __init__(self, loop: VLoop) -> None:
        self._loop = loop

    def monotonic(self) -> float:
        return self._loop.time()

    def time(self) -> float:
        return self._loop.time()

    def __getattr__(self, name):
        import time as _t

        return getattr(_t, name)


def run(coro_fn, *, patch_time=True, max_vtime: float | None = None):
    """Run `coro_fn(loop)` to completion on a fresh VLoop; returns its result.

    Raises Deadlock if the loop runs dry while the main coroutine is pending.
    """
    loop = VLoop()
    asyncio.set_event_loop(loop)
    saved = []
    if patch_time:
        import sys
        import time as _time

        import bellows.ash  # noqa: F401 - make sure the modules that measure time are loaded
        import bellows.ezsp.protocol  # noqa: F401

        # Whatever a bellows module uses to read the clock - the `time` module itself or functions imported
        # from it - follows virtual time.  Nothing is assumed about which modules do so or under what name.
        clock = VClock(loop)
        fns = {id(_time.monotonic): clock.monotonic, id(_time.time): clock.time, id(_time.perf_counter): clock.monotonic}
        for mname, mod in list(sys.modules.items()):
            if mod is None or not (mname == "bellows" or mname.startswith("bellows.")):
                continue
            for attr, val in list(vars(mod).items()):
                if val is _time:
                    saved.append((mod, attr, val))
                    setattr(mod, attr, clock)
                elif callable(val) and id(val) in fns and getattr(val, "__module__", None) == "time":
                    saved.append((mod, attr, val))
                    setattr(mod, attr, fns[id(val)])
    try:
        return loop.run_until_complete(coro_fn(loop))
    finally:
        for mod, attr, orig in saved:
            setattr(mod, attr, orig)
        try:
            # cancel whatever is left so that nothing leaks between cases
            pending = [t for t in asyncio.all_tasks(loop) if not t.done()]
            for t in pending:
                t.cancel()
            if pending:
                try:
                    loop.run_until_complete(
                        asyncio.gather(*pending, return_exceptions=True)
                    )
                except (Deadlock, RuntimeError):
                    pass
        finally:
            asyncio.set_event_loop(None)
            loop.close()


async def settle(loop: VLoop, n: int = 3) -> None:
    """Let `n` loop iterations pass without advancing virtual time."""
    for _ in range(n):
        await asyncio.sleep(0)
