"""Independent ASH reference, written from UG101.  Shares no code with bellows/ash.py.

Contents
  crc_ccitt, lfsr, randomize, stuff, unstuff
  control-byte packers and `encode_*` (return the complete wire bytes incl. FLAG)
  decode_frame(unstuffed) -> Frame | raises Bad
  classify(control) -> kind
  RefDecoder     streaming byte-at-a-time decoder + host receive model
  RefNcpAsh      specification-conforming NCP-side ASH endpoint (window 1..3)
"""
from __future__ import annotations

from dataclasses import dataclass, field

FLAG, ESC, XON, XOFF, SUB, CAN = 0x7E, 0x7D, 0x11, 0x13, 0x18, 0x1A
RESERVED = (FLAG, ESC, XON, XOFF, SUB, CAN)

RESET_SOFTWARE = 0x0B
ASH_VERSION = 2


def crc_ccitt(data: bytes) -> int:
    """CRC-CCITT (poly 0x1021, init 0xFFFF, no reflection, no final xor)."""
    crc = 0xFFFF
    for b in data:
        crc ^= b << 8
        for _ in range(8):
            if crc & 0x8000:
                crc = ((crc << 1) ^ 0x1021) & 0xFFFF
            else:
                crc = (crc << 1) & 0xFFFF
    return crc


def lfsr(n: int) -> bytes:
    """UG101 4.3: rand0 = 0x42; if bit0==0: rand>>1 else (rand>>1)^0xB8."""
    out = []
    r = 0x42
    for _ in range(n):
        out.append(r)
        r = (r >> 1) ^ (0xB8 if (r & 1) else 0)
    return bytes(out)


_LFSR = lfsr(1200)


def randomize(data: bytes) -> bytes:
    return bytes(d ^ _LFSR[i] for i, d in enumerate(data))


def stuff(data: bytes) -> bytes:
    out = bytearray()
    for b in data:
        if b in RESERVED:
            out.append(ESC)
            out.append(b ^ 0x20)
        else:
            out.append(b)
    return bytes(out)


class Bad(Exception):
    """Frame must be rejected (NAK)."""


def unstuff(data: bytes) -> bytes:
    out = bytearray()
    esc = False
    for b in data:
        if esc:
            v = b ^ 0x20
            if v not in RESERVED:
                raise Bad("invalid escape")
            out.append(v)
            esc = False
        elif b == ESC:
            esc = True
        else:
            out.append(b)
    # a dangling ESC right before the FLAG has no effect (UG101 4.2)
    return bytes(out)


def with_crc(body: bytes) -> bytes:
    c = crc_ccitt(body)
    return body + bytes([c >> 8, c & 0xFF])


# -- control bytes ----------------------------------------------------------------------
def ctl_data(frm: int, retx: int, ack: int) -> int:
    return ((frm & 7) << 4) | ((1 if retx else 0) << 3) | (ack & 7)


def ctl_ack(ack: int, nrdy: int = 0, res: int = 0) -> int:
    return 0x80 | ((res & 1) << 4) | ((nrdy & 1) << 3) | (ack & 7)


def ctl_nak(ack: int, nrdy: int = 0, res: int = 0) -> int:
    return 0xA0 | ((res & 1) << 4) | ((nrdy & 1) << 3) | (ack & 7)


CTL_RST, CTL_RSTACK, CTL_ERROR = 0xC0, 0xC1, 0xC2


def raw_data(frm, retx, ack, payload: bytes) -> bytes:
    """Unstuffed DATA frame incl. CRC."""
    return with_crc(bytes([ctl_data(frm, retx, ack)]) + randomize(payload))


def raw_ack(ack, nrdy=0, res=0) -> bytes:
    return with_crc(bytes([ctl_ack(ack, nrdy, res)]))


def raw_nak(ack, nrdy=0, res=0) -> bytes:
    return with_crc(bytes([ctl_nak(ack, nrdy, res)]))


def raw_rst() -> bytes:
    return with_crc(bytes([CTL_RST]))


def raw_rstack(code: int, version: int = ASH_VERSION) -> bytes:
    return with_crc(bytes([CTL_RSTACK, version, code]))


def raw_error(code: int, version: int = ASH_VERSION) -> bytes:
    return with_crc(bytes([CTL_ERROR, version, code]))


def wire(raw: bytes, cancel_prefix: bool = False) -> bytes:
    return (bytes([CAN]) if cancel_prefix else b"") + stuff(raw) + bytes([FLAG])


def encode_data(frm, retx, ack, payload) -> bytes:
    return wire(raw_data(frm, retx, ack, payload))


def encode_ack(ack, nrdy=0, res=0) -> bytes:
    return wire(raw_ack(ack, nrdy, res))


def encode_nak(ack, nrdy=0, res=0) -> bytes:
    return wire(raw_nak(ack, nrdy, res))


def encode_rst() -> bytes:
    return wire(raw_rst(), cancel_prefix=True)


def encode_rstack(code, version=ASH_VERSION) -> bytes:
    return wire(raw_rstack(code, version), cancel_prefix=True)


def encode_error(code, version=ASH_VERSION) -> bytes:
    return wire(raw_error(code, version))


# -- decode -----------------------------------------------------------------------------
@dataclass(frozen=True)
class Frame:
    kind: str  # DATA ACK NAK RST RSTACK ERROR
    frm: int = 0
    retx: int = 0
    ack: int = 0
    nrdy: int = 0
    res: int = 0
    payload: bytes = b""
    version: int = 0
    code: int = 0
    extra: bool = False  # ACK/NAK carrying a data field (spec silent)

    def sig(self):
        if self.kind == "DATA":
            return ("D", self.frm, self.retx, self.ack, len(self.payload))
        if self.kind in ("ACK", "NAK"):
            return (self.kind[0], self.ack)
        if self.kind in ("RSTACK", "ERROR"):
            return (self.kind, self.code)
        return (self.kind,)


def classify(control: int) -> str:
    if control & 0x80 == 0:
        return "DATA"
    if control & 0xE0 == 0x80:
        return "ACK"
    if control & 0xE0 == 0xA0:
        return "NAK"
    if control == CTL_RST:
        return "RST"
    if control == CTL_RSTACK:
        return "RSTACK"
    if control == CTL_ERROR:
        return "ERROR"
    return "UNKNOWN"


def decode_frame(raw: bytes, max_data: int = 256) -> Frame:
    """`raw` = unstuffed bytes between flags.  Raises Bad for anything to be NAKed."""
    if len(raw) < 3:
        raise Bad("too short")
    body, crc = raw[:-2], raw[-2:]
    c = crc_ccitt(body)
    if crc != bytes([c >> 8, c & 0xFF]):
        raise Bad("crc")
    control, fld = body[0], body[1:]
    kind = classify(control)
    if kind == "DATA":
        if len(fld) > max_data:
            raise Bad("data field too long")
        return Frame(
            "DATA",
            frm=(control >> 4) & 7,
            retx=(control >> 3) & 1,
            ack=control & 7,
            payload=randomize(fld),
        )
    if kind in ("ACK", "NAK"):
        return Frame(
            kind,
            ack=control & 7,
            nrdy=(control >> 3) & 1,
            res=(control >> 4) & 1,
            extra=bool(fld),
        )
    if kind == "RST":
        if fld:
            raise Bad("RST with data")
        return Frame("RST")
    if kind in ("RSTACK", "ERROR"):
        if len(fld) != 2 or fld[0] != ASH_VERSION:
            raise Bad("bad RSTACK/ERROR body")
        return Frame(kind, version=fld[0], code=fld[1])
    raise Bad("unknown control byte")


def split_wire(stream: bytes):
    """Split a host-written byte stream into (cancel_prefixed, Frame|None, rawbytes)."""
    out = []
    cur = bytearray()
    cancel = False
    for b in stream:
        if b == FLAG:
            if cur:
                try:
                    fr = decode_frame(unstuff(bytes(cur)))
                except Bad:
                    fr = None
                out.append((cancel, fr, bytes(cur)))
            cur.clear()
            cancel = False
        elif b == CAN:
            cur.clear()
            cancel = True
        else:
            cur.append(b)
    return out, bytes(cur)


# -- streaming decoder + host receive model ---------------------------------------------
class Unspecified(Exception):
    """Input left the region where the reference makes a claim."""


class RefDecoder:
    """Reference for the *host* receive side.

    feed(bytes) -> list of events, each one of
       ("up_data", payload) ("up_reset", code) ("tx", "ACK"|"NAK", ackNum, cancel_prefixed)
    in the order they must become observable.
    """

    def __init__(self, rx_seq: int = 0) -> None:
        self.buf = bytearray()
        self.discard = False
        self.rx_seq = rx_seq
        self.stats = {}

    def _st(self, k):
        self.stats[k] = self.stats.get(k, 0) + 1

    def feed(self, data: bytes):
        ev = []
        for b in data:
            if self.discard:
                if b == FLAG:
                    self.discard = False
                    self._st("sub_discard_ended")
                continue
            if b == XON or b == XOFF:
                if self.buf and self.buf[-1] == ESC:
                    self._st("xonxoff_inside_escape")
                self._st("xonxoff")
                continue
            if b == CAN:
                if self.buf:
                    self._st("cancel_discard")
                self.buf.clear()
                continue
            if b == SUB:
                self.buf.clear()
                self.discard = True
                self._st("substitute")
                continue
            if b == FLAG:
                if self.buf:
                    raw = bytes(self.buf)
                    self.buf.clear()
                    ev.extend(self._frame(raw))
                else:
                    self._st("empty_frame")
                continue
            self.buf.append(b)
        return ev

    def _frame(self, stuffed: bytes):
        if stuffed and stuffed[-1] == ESC:
            self._st("dangling_esc")
        try:
            raw = unstuff(stuffed)
        except Bad:
            self._st("invalid_escape")
            return [("tx", "NAK", self.rx_seq, True)]
        try:
            fr = decode_frame(raw)
        except Bad as e:
            self._st("reject_" + str(e).replace(" ", "_"))
            return [("tx", "NAK", self.rx_seq, True)]
        return self.receive(fr)

    def receive(self, fr: Frame):
        """The receive rule of C04 for a well-formed frame."""
        if fr.extra:
            raise Unspecified("ACK/NAK with data field")
        if fr.kind == "DATA":
            if fr.frm == self.rx_seq:
                self.rx_seq = (self.rx_seq + 1) % 8
                self._st("data_accepted")
                return [("tx", "ACK", self.rx_seq, False), ("up_data", fr.payload)]
            # a well-formed frame that is not the next expected one: one answer carrying the next expected number;
            # UG101 re-ACKs retransmissions and NAKs the rest, the properties leave the kind open ("open" mark)
            if fr.retx:
                self._st("data_dup_retx")
                return [("tx", "ACK", self.rx_seq, False, "open")]
            self._st("data_out_of_seq")
            return [("tx", "NAK", self.rx_seq, False, "open")]
        if fr.kind == "RSTACK":
            self.rx_seq = 0
            self._st("rstack")
            return [("up_reset", fr.code)]
        if fr.kind == "ERROR":
            self._st("error")
            return [("up_reset", fr.code)]
        self._st(fr.kind.lower())
        return []


# -- NCP-side endpoint ------------------------------------------------------------------
@dataclass
class _Out:
    frm: int
    payload: bytes
    sent: int = 0


class RefNcpAsh:
    """Specification-conforming NCP-side ASH endpoint.

    Transport-agnostic: `write(bytes)` is called to emit, `feed(bytes)` to receive,
    timers through `call_later(delay, cb) -> handle with .cancel()`.
    Go-back-N with window `w`, reject condition, piggy-backed acks.
    """

    T_RETX = 1.6  # fixed retransmission timer of the model NCP
    MAX_TIMEOUTS = 6

    def __init__(self, write, call_later, window=1, on_data=None, on_rst=None,
                 ack_delay=0.0):
        self.write = write
        self.call_later = call_later
        self.w = window
        self.on_data = on_data or (lambda p: None)
        self.on_rst = on_rst or (lambda: None)
        self.ack_delay = ack_delay
        self.connected = False
        self.failed = False
        self._rx = bytearray()
        self._rx_discard = False
        self.delivered: list[bytes] = []
        self.acked_payloads: list[bytes] = []
        self.stats: dict[str, int] = {}
        self._reset_state()

    def _st(self, k):
        self.stats[k] = self.stats.get(k, 0) + 1

    def _reset_state(self):
        self.frm_tx = 0  # next frame number to assign
        self.ack_rx = 0  # next frame number expected from host
        self.unacked: list[_Out] = []  # sent, not yet acked (<= w)
        self.queue: list[bytes] = []  # not yet sent
        self.reject = False
        self.timeouts = 0
        self._timer = None
        self._ack_timer = None
        self.wraps_tx = 0
        self.wraps_rx = 0

    # .. sending ...
    def submit(self, payload: bytes):
        self.queue.append(payload)
        self._pump()

    def _pump(self):
        if not self.connected or self.failed:
            return
        while self.queue and len(self.unacked) < self.w:
            p = self.queue.pop(0)
            o = _Out(self.frm_tx, p)
            self.frm_tx = (self.frm_tx + 1) % 8
            if self.frm_tx == 0:
                self.wraps_tx += 1
            self.unacked.append(o)
            self._send_data(o)
        self._arm()

    def _send_data(self, o: _Out):
        self._cancel_ack_timer()
        self.write(encode_data(o.frm, 1 if o.sent else 0, self.ack_rx, o.payload))
        o.sent += 1
        self._st("tx_data" if o.sent == 1 else "tx_data_retx")

    def _arm(self):
        if self._timer is not None:
            self._timer.cancel()
            self._timer = None
        if self.unacked and not self.failed:
            self._timer = self.call_later(self.T_RETX, self._on_timeout)

    def _on_timeout(self):
        self._timer = None
        if not self.unacked or self.failed:
            return
        self.timeouts += 1
        self._st("timeout")
        if self.timeouts >= self.MAX_TIMEOUTS:
            self.failed = True
            self.write(encode_error(0x51))
            self._st("tx_error")
            return
        for o in self.unacked:
            self._send_data(o)
        self._arm()

    def _handle_ack(self, ack: int):
        # ack acknowledges every outstanding frame before `ack`
        nums = [o.frm for o in self.unacked]
        if not nums:
            return
        # valid ack values: nums[0] (nothing new) .. nums[-1]+1
        k = (ack - nums[0]) % 8
        if k == 0 or k > len(nums):
            return
        for o in self.unacked[:k]:
            self.acked_payloads.append(o.payload)
        del self.unacked[:k]
        self.timeouts = 0
        self._st("acked")
        self._arm()

    # .. receiving ...
    def feed(self, data: bytes):
        for b in data:
            if self._rx_discard:
                if b == FLAG:
                    self._rx_discard = False
                continue
            if b in (XON, XOFF):
                continue
            if b == CAN:
                self._rx.clear()
                continue
            if b == SUB:
                self._rx.clear()
                self._rx_discard = True
                continue
            if b == FLAG:
                if self._rx:
                    raw = bytes(self._rx)
                    self._rx.clear()
                    self._frame(raw)
                continue
            self._rx.append(b)
            if len(self._rx) > 600:
                del self._rx[:300]

    def _frame(self, stuffed: bytes):
        try:
            fr = decode_frame(unstuff(stuffed), max_data=220 + 5)  # current NCP firmware takes EZSP frames up to 220 bytes
        except Bad:
            self._st("rx_bad")
            if self.connected and not self.failed:
                self._send_nak()
            return
        if fr.kind == "RST":
            self._st("rx_rst")
            for t in (self._timer, self._ack_timer):
                if t is not None:
                    t.cancel()
            self._reset_state()
            self.connected = True
            self.failed = False
            self.on_rst()
            self.write(encode_rstack(RESET_SOFTWARE))
            return
        if not self.connected or self.failed:
            return
        if fr.kind == "DATA":
            self._handle_ack(fr.ack)
            if fr.frm == self.ack_rx:
                self.reject = False
                self.ack_rx = (self.ack_rx + 1) % 8
                if self.ack_rx == 0:
                    self.wraps_rx += 1
                self.delivered.append(fr.payload)
                self._st("rx_data_ok")
                self._schedule_ack()
                self.on_data(fr.payload)
                self._pump()
            elif fr.retx:
                self._st("rx_data_dup")
                self._schedule_ack()
            else:
                self._st("rx_data_oos")
                self._send_nak()
        elif fr.kind == "ACK":
            self._handle_ack(fr.ack)
            self._pump()
        elif fr.kind == "NAK":
            self._st("rx_nak")
            self._handle_ack(fr.ack)
            # retransmit everything still outstanding (go-back-N); a frame the host keeps rejecting is
            # given up after a generous number of attempts (the endpoint then reports ERROR and stops)
            if self.unacked and self.unacked[0].sent > 24:
                self._st("gave_up_after_naks")
                self.failed = True
                if self._timer is not None:
                    self._timer.cancel()
                self.write(encode_error(0x51))
                return
            for o in self.unacked:
                self._send_data(o)
            self._pump()
        # RSTACK / ERROR from a host are ignored

    def _send_nak(self):
        if self.reject:
            return
        self.reject = True
        self.write(encode_nak(self.ack_rx))
        self._st("tx_nak")

    def _cancel_ack_timer(self):
        if self._ack_timer is not None:
            self._ack_timer.cancel()
            self._ack_timer = None

    def _schedule_ack(self):
        if self.ack_delay <= 0:
            self._emit_ack()
            return
        if self._ack_timer is None:
            self._ack_timer = self.call_later(self.ack_delay, self._emit_ack)

    def _emit_ack(self):
        self._ack_timer = None
        if self.connected and not self.failed:
            self.write(encode_ack(self.ack_rx))
            self._st("tx_ack")
