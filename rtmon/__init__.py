"""Runtime-monitoring machinery for zigpy/bellows (properties C01..C20).

Everything here runs the *real* bellows code from /repo's working tree under
workloads driven by a deterministic virtual-time event loop, with independent
reference implementations and offline history checkers as oracles.
"""
