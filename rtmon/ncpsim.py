"""Simulated NCP at the EZSP-frame level, stub gateway, and stack construction (DESIGN 2.4).

`FrameNcp` parses request *headers* independently (rtmon.ezspref) and is strict about framing:
a request not framed for the NCP's version is ignored (no reply) - except the legacy `version`
query, which every version answers in the legacy format - and until a properly framed
`version(desired == own version)` was seen every other command is answered with
invalidCommand(ERROR_VERSION_NOT_SET).  Request/response *bodies* are decoded/encoded with the
repository's own schema tables (trusted for bodies; the codec composition is what C07 checks).

Behaviour is scriptable per request through `ncp.script(name, args, seq) -> list[action] | None`
  ("reply", values[, delay])   reply with these values (encoded by the table)
  ("raw", bytes[, delay])      deliver these bytes
  ("cb", name, values[, delay])   deliver a callback frame
  ("default"[, delay])         run the default handler
  ("none",)                    stay silent
and stateful default handlers cover what the monitored code paths need.
"""
from __future__ import annotations

import asyncio

from . import ezspref as X


class StubGateway:
    """Stands in for the object bellows.uart.connect() returns (frame mode)."""

    def __init__(self, loop, trace):
        self.loop, self.trace = loop, trace
        self.ncp = None
        self.fail_send = None  # callable(data) -> exception | None
        self.closed = False
        self.reset_behaviour = "ok"  # "ok" | "timeout" | exception instance
        self.resets = 0

    async def send_data(self, data: bytes) -> None:
        data = bytes(data)
        self.trace.append(("gw_send", self.loop.time(), data))
        if self.closed:
            raise RuntimeError("stub gateway is closed")
        if self.fail_send is not None:
            exc = self.fail_send(data)
            if exc is not None:
                raise exc
        if self.ncp is not None:
            self.ncp.on_request(data)

    async def reset(self):
        self.resets += 1
        self.trace.append(("gw_reset", self.loop.time()))
        if self.reset_behaviour == "timeout":
            await asyncio.sleep(5)
            raise asyncio.TimeoutError()
        if isinstance(self.reset_behaviour, BaseException):
            raise self.reset_behaviour
        if self.ncp is not None:
            self.ncp.reset()

    async def wait_for_startup_reset(self):
        await asyncio.sleep(3600)

    def close(self):
        self.trace.append(("gw_close", self.loop.time()))
        self.closed = True


class FrameNcp:
    def __init__(self, version: int, loop, trace=None, stack_type=2, stack_version=0x6710):
        import bellows.ezsp as ezsp_mod

        self.version = version
        self.loop = loop
        self.trace = trace if trace is not None else []
        self.stack_type, self.stack_version = stack_type, stack_version
        known = sorted(ezsp_mod.EZSP._BY_VERSION)
        self.table_version = version if version in ezsp_mod.EZSP._BY_VERSION else known[-1]
        self.COMMANDS = ezsp_mod.EZSP._BY_VERSION[self.table_version].COMMANDS
        self.BY_ID = {}
        for name, (cid, tx, rx) in self.COMMANDS.items():
            self.BY_ID.setdefault(cid, name)
        self.deliver = None  # callable(bytes): hand a frame to the host
        self.script = None
        self.handlers = {}
        self.version_set = False
        self.strict = True
        self.requests = []  # (t, name|None, args|None, seq, raw, note)
        self.cb_seq = 0
        self.last_seq = 0
        self.framing_errors = []
        self.state = {}
        self.on_reset = None

    # -- status helpers ---------------------------------------------------------------------
    @property
    def unified(self):
        return self.table_version >= 14

    # -- wiring -----------------------------------------------------------------------------
    think_time = 0.0  # how long the NCP takes to execute a command before it answers

    def _send(self, data: bytes, delay: float = 0.0):
        self.loop.io_at(self.loop.time() + delay + self.think_time, self._deliver_now, bytes(data))

    def _deliver_now(self, data):
        self.trace.append(("ncp_tx", self.loop.time(), data))
        if self.deliver is not None:
            self.deliver(data)

    def reset(self):
        self.version_set = False
        self.trace.append(("ncp_reset", self.loop.time()))
        if getattr(self, "on_reset", None) is not None:
            self.on_reset()

    # -- encoding ---------------------------------------------------------------------------
    def encode_body(self, name, values, which=2):
        import bellows.types as t

        schema = self.COMMANDS[name][which]
        if isinstance(schema, dict):
            if isinstance(values, dict):
                return b"".join(T(values[k]).serialize() for k, T in schema.items())
            values = list(values)
            assert len(values) == len(schema), (name, values, list(schema))
            return b"".join(T(v).serialize() for v, T in zip(values, schema.values()))
        if isinstance(values, schema):
            return values.serialize()
        if isinstance(values, dict):
            return schema(**values).serialize()
        return schema(*values).serialize()

    # status bits a real NCP sets in the frame-control byte of its *responses*: callbackPending (0x04)
    # whenever callbacks are queued, overflow (0x01) after it ran out of memory at some point
    FC_STATUS_BITS = (0x00, 0x04, 0x00, 0x01, 0x04, 0x00, 0x05, 0x00)

    def encode(self, name, values, seq, callback=False):
        cid = self.COMMANDS[name][0]
        frame = bytearray(X.response_header(self.version, seq, cid, callback) + self.encode_body(name, values))
        if not callback:
            self._fc_turn = getattr(self, "_fc_turn", 0) + 1
            frame[1] |= self.FC_STATUS_BITS[self._fc_turn % len(self.FC_STATUS_BITS)]
        return bytes(frame)

    def callback(self, name, values, delay=0.0):
        """Unsolicited callback frame (sequence = the last response's, as real NCPs do)."""
        self._send(self.encode(name, values, self.last_seq, callback=True), delay)

    def zero_reply(self, name):
        schema = self.COMMANDS[name][2]
        zeros = bytes(600)
        if isinstance(schema, dict):
            out = []
            for T in schema.values():
                v, _ = T.deserialize(zeros)
                if isinstance(v, list) and len(v) > 64:
                    v = v[:41]  # open-ended lists (e.g. the counters): a realistic number of entries
                out.append(v)
            return out
        v, _ = schema.deserialize(zeros)
        return v

    # -- request handling -------------------------------------------------------------------
    def on_request(self, data: bytes):
        import bellows.types as t

        now = self.loop.time()
        if X.is_legacy_version_query(data):
            seq, desired = data[0], data[3]
            self.requests.append((now, "version", {"desiredProtocolVersion": desired}, seq, data, "legacy"))
            self.trace.append(("ncp_rx", now, "version", "legacy", data))
            if self.version <= 4 and desired == self.version:
                self.version_set = True
            self.last_seq = seq
            act = self.script("version", {"desiredProtocolVersion": desired, "_legacy": True}, seq) if self.script else None
            if act is not None:
                self._run_actions("version", act, seq, None)
                return
            self._send(X.legacy_version_response(seq, self.version, self.stack_type, self.stack_version))
            return
        try:
            seq, cid, body = X.parse_request(self.version, data)
        except X.BadHeader as e:
            self.framing_errors.append((now, data, str(e)))
            self.requests.append((now, None, None, data[0] if data else None, data, "bad-framing"))
            self.trace.append(("ncp_rx", now, None, "bad-framing", data))
            return  # a real NCP cannot make sense of it
        self.last_seq = seq
        name = self.BY_ID.get(cid)
        if name is None:
            self.requests.append((now, None, None, seq, data, "unknown-id"))
            self.trace.append(("ncp_rx", now, None, "unknown-id", data))
            self._send(X.invalid_command(self.version, seq, 0x36))
            return
        tx_schema = self.COMMANDS[name][1]
        try:
            if isinstance(tx_schema, dict):
                args, rest = t.deserialize_dict(body, tx_schema)
            else:
                args, rest = tx_schema.deserialize(body)
        except Exception as e:  # noqa: BLE001
            self.requests.append((now, name, None, seq, data, f"undecodable-body {e!r}"))
            self.trace.append(("ncp_rx", now, name, "undecodable-body", data))
            self._send(X.invalid_command(self.version, seq, 0x36))
            return
        note = "ok" if not rest else "trailing-bytes"
        self.requests.append((now, name, args, seq, data, note))
        self.trace.append(("ncp_rx", now, name, note, data))
        if name == "version":
            if args["desiredProtocolVersion"] == self.version:
                self.version_set = True
            act = self.script(name, args, seq) if self.script else None
            if act is not None:
                self._run_actions(name, act, seq, args)
                return
            self._send(X.version_response(self.version, seq, self.stack_type, self.stack_version))
            return
        if not self.version_set and self.strict:
            self._send(X.invalid_command(self.version, seq, X.EZSP_ERROR_VERSION_NOT_SET))
            return
        act = self.script(name, args, seq) if self.script else None
        if act is None:
            act = [("default",)]
        self._run_actions(name, act, seq, args)

    def _run_actions(self, name, actions, seq, args):
        for a in actions:
            kind = a[0]
            if kind == "none":
                continue
            if kind == "default":
                delay = a[1] if len(a) > 1 else 0.0
                h = self.handlers.get(name)
                try:
                    values = h(self, args) if h is not None else self.zero_reply(name)
                except Exception as ex:  # noqa: BLE001
                    if type(ex).__name__ == "InvalidCmd":
                        self._send(X.invalid_command(self.version, seq, 0x36), delay)
                        continue
                    raise
                if values is None:
                    continue  # handler chose silence
                self._send(self.encode(name, values, seq), delay)
            elif kind == "reply":
                self._send(self.encode(name, a[1], seq), a[2] if len(a) > 2 else 0.0)
            elif kind == "raw":
                self._send(a[1], a[2] if len(a) > 2 else 0.0)
            elif kind == "cb":
                self._send(self.encode(a[1], a[2], seq, callback=True), a[3] if len(a) > 3 else 0.0)
            elif kind == "invalid":
                self._send(X.invalid_command(self.version, seq, a[1] if len(a) > 1 else 0x36),
                           a[2] if len(a) > 2 else 0.0)
            else:
                raise ValueError(a)


def device_config(path="/dev/ttyVERIF"):
    import zigpy.config as zc

    return zc.SCHEMA_DEVICE({zc.CONF_DEVICE_PATH: path})


class Stack:
    """EZSP + StubGateway + FrameNcp in frame mode."""

    def __init__(self, loop, version, trace=None, path="/dev/ttyVERIF"):
        self.loop = loop
        self.trace = trace if trace is not None else []
        self.version = version
        self.gw = StubGateway(loop, self.trace)
        self.ncp = FrameNcp(version, loop, self.trace)
        self.gw.ncp = self.ncp
        self.path = path
        self.ezsp = None

    async def start(self, negotiate=True):
        import bellows.ezsp as ezsp_mod
        import bellows.uart as uart

        gw = self.gw
        saved = uart.connect

        async def fake_connect(config, application, use_thread=True):
            return gw

        uart.connect = fake_connect
        try:
            self.ezsp = ezsp_mod.EZSP(device_config(self.path))
            await self.ezsp.connect(use_thread=False)
        finally:
            uart.connect = saved
        self.ncp.deliver = self.ezsp.frame_received
        if negotiate:
            await self.ezsp.startup_reset()
        return self.ezsp


class BringUpFailed(Exception):
    """The real stack could not complete connect / reset / version negotiation against a
    fault-free simulated NCP: commands are not getting their responses."""


async def started(loop, version, acc, prop, **kw):
    """Stack(...).start() that turns a failing fault-free bring-up into a violation of `prop`
    (each hosting property states that a command returns the response carrying its sequence
    number) instead of a crashed shard."""
    st = Stack(loop, version, **kw)
    try:
        await st.start()
    except BaseException as e:  # noqa: BLE001
        reqs = [(r[1], r[5], r[4].hex()) for r in st.ncp.requests[-4:]]
        acc.violation(f"{prop}/setup/fault-free-bring-up-failed",
                      f"v{version}: connect/startup_reset against a fault-free NCP ended with {e!r}; "
                      f"last requests seen by the NCP: {reqs}", {"version": version, "part": "bring-up"})
        raise BringUpFailed(repr(e)) from None
    return st
