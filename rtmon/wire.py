"""Wire mode (DESIGN 2.4): real bellows.uart.connect -> real Gateway + real AshProtocol over a
fake serial transport, a faulty FIFO line, the independent NCP-side ASH endpoint and the
frame-level NCP model.  Only `zigpy.serial.create_serial_connection` is replaced."""
from __future__ import annotations

import asyncio

from . import ashref as R
from . import ncpsim, ncpmodel
from .line import Line, HostTransport


class WireStack:
    def __init__(self, loop, version, trace=None, vector=(), rate=0.0, seed=0, chunking="whole", window=1,
                 path="/dev/ttyVERIF"):
        self.loop = loop
        self.trace = trace if trace is not None else []
        self.version = version
        self.path = path
        self.line = Line(loop, self.trace, vector=vector, rate=rate, seed=seed, chunking=chunking)
        self.ncp = ncpsim.FrameNcp(version, loop, self.trace)
        ncpmodel.install_config(self.ncp)
        self.ash = R.RefNcpAsh(write=self._ncp_write, call_later=loop.h_call_later,
                               window=window, on_data=self._on_data, on_rst=self._on_rst)
        self.ncp.deliver = self._ncp_deliver
        self.line.sink["h2n"] = self._h2n
        self.transport = None
        self.protocol = None
        self.ezsp = None
        self.transport_errors = None  # see _fatal_error
        self.silent = False  # NCP stops reacting at all
        self.naks_before_silence = 0
        self.connects = 0

    # -- NCP side -----------------------------------------------------------------------------
    def _ncp_write(self, data):
        if not self.silent:
            self.line.send("n2h", data)

    def _h2n(self, chunk):
        if self.silent:
            if self.naks_before_silence > 0 and any(fr is not None and fr.kind == "DATA" for _, fr, _ in R.split_wire(bytes(chunk))[0]):
                # a dying NCP: it still rejects the next DATA frame(s) with a NAK, then says nothing more
                self.naks_before_silence -= 1
                self.line.send("n2h", R.encode_nak(self.ash.ack_rx))
            return
        self.ash.feed(chunk)

    def _on_data(self, payload):
        self.trace.append(("ezsp_rx", self.loop.time(), bytes(payload)))
        self.ncp.on_request(bytes(payload))

    def _on_rst(self):
        self.ncp.reset()

    def _ncp_deliver(self, data):
        if self.silent:
            return
        self.trace.append(("ezsp_tx", self.loop.time(), bytes(data)))
        self.ash.submit(bytes(data))

    def spontaneous_reset(self, code=R.RESET_SOFTWARE):
        """The NCP resets on its own: state cleared, RSTACK(code) sent."""
        for t_ in (self.ash._timer, self.ash._ack_timer):
            if t_ is not None:
                t_.cancel()
        self.ash._reset_state()
        self.ash.connected = True
        self.ash.failed = False
        self.ncp.reset()
        self.line.send("n2h", R.encode_rstack(code))

    def send_error(self, code):
        self.ash.failed = True
        self.line.send("n2h", R.encode_error(code))

    # -- host side ----------------------------------------------------------------------------
    def install_serial(self):
        import zigpy.serial

        stack = self
        self._saved = zigpy.serial.create_serial_connection

        async def create_serial_connection(loop, protocol_factory, url=None, baudrate=None, **kw):
            stack.trace.append(("serial_open", loop.time(), url, baudrate, kw))
            proto = protocol_factory()
            tr = HostTransport(stack.line)
            tr.protocol = proto
            stack.transport, stack.protocol = tr, proto
            stack.line.sink["n2h"] = proto.data_received
            stack.line.on_protocol_error = stack._fatal_error
            stack.connects += 1
            loop.call_soon(proto.connection_made, tr)
            return tr, proto

        zigpy.serial.create_serial_connection = create_serial_connection

    def uninstall_serial(self):
        import zigpy.serial

        zigpy.serial.create_serial_connection = self._saved

    def new_ezsp(self):
        import bellows.ezsp as ezsp_mod

        self.ezsp = ezsp_mod.EZSP(ncpsim.device_config(self.path))
        return self.ezsp

    def _fatal_error(self, exc):
        """protocol.data_received() raised.  asyncio's own (socket) transports call _fatal_error(): log,
        force-close, connection_lost(exc).  Serial-port transports (pyserial-asyncio style) do not wrap
        the call: the exception ends up in the loop's exception handler and the port stays open.  Both
        behaviours are produced: `transport_errors` = "close" | "log" (default: by device path)."""
        mode = self.transport_errors or ("close" if str(self.path).startswith("socket") else "log")
        if mode == "log":
            return
        proto, tr = self.protocol, self.transport
        if proto is None or tr._closing:
            return
        tr._closing = True
        self.line.closed = True

        def _cl():
            self.trace.append(("conn_lost", self.loop.time(), "fatal:" + repr(exc)[:80]))
            proto.connection_lost(exc)

        self.loop.call_soon(_cl)

    def lose_connection(self, kind="error"):
        """As real transports do: noticed in an I/O callback, delivered through call_soon."""
        proto, tr = self.protocol, self.transport
        if proto is None or tr._closing:
            # a transport the host already closed reports nothing further
            self.trace.append(("conn_lost_ignored", self.loop.time(), kind))
            return
        tr._closing = True
        self.line.closed = True

        def _cl():
            self.trace.append(("conn_lost", self.loop.time(), kind))
            if kind == "eof":
                proto.eof_received()
            else:
                proto.connection_lost(OSError("serial port gone"))

        self.loop.call_soon(_cl)
