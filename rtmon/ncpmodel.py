"""Stateful default handlers for rtmon.ncpsim.FrameNcp (DESIGN Appendix A).

Plain storage semantics only.  Handlers are functions (ncp, args) -> values in declared
order (or None for silence); status values are chosen in the status family of the field's
declared type (EmberStatus / EzspStatus below v14, sl_Status from v14).
"""
from __future__ import annotations

EMBER = dict(ok=0x00, fatal=0x01, bad_argument=0x02, not_found=0x03, invalid_index=0xB1, erased=0xB6,
             not_joined=0x93, invalid_call=0x70, max_limit=0x72, network_busy=0xA1, no_buffers=0x18,
             network_down=0x91, network_up=0x90, delivery_failed=0x66, undefined=0x77)
EZSPS = dict(ok=0x00, fatal=0x38, invalid_value=0x36, invalid_id=0x37, oom=0x35, invalid_call=0x38,
             invalid_index=0x36, not_found=0x37, undefined=0xEE)
SL = dict(ok=0x0000, fatal=0x0001, invalid_index=0x0027, not_found=0x002D, erased=0x002D, not_joined=0x0017,
          invalid_call=0x0002, max_limit=0x0C03, transmit_busy=0x0034, no_buffers=0x0019, network_busy=0x0C03,
          network_down=0x0016, network_up=0x0015, invalid_value=0x0021, invalid_id=0x0021, oom=0x0019,
          delivery_failed=0x0C01, bad_argument=0x0021, undefined=0x7777)


def status(ncp, cmd, kind, field="status"):
    schema = ncp.COMMANDS[cmd][2]
    T = schema[field] if isinstance(schema, dict) else None
    fam = getattr(T, "__name__", "")
    if fam == "sl_Status":
        return SL[kind]
    if fam == "EzspStatus":
        return EZSPS.get(kind, EZSPS["fatal"])
    return EMBER.get(kind, EMBER["fatal"])


# ---- configuration store -------------------------------------------------------------------
class ConfigStore:
    def __init__(self):
        self.values: dict[int, int] = {}  # configId -> value
        self.unreadable: set[int] = set()
        self.reject = set()  # configIds whose set is answered with an error; a dict gives the raw status code per id
        self.ezsp_values: dict[int, bytes] = {}
        self.reject_values: set[int] = set()
        self.unreadable_values: set[int] = set()
        self.log: list = []  # ("cfg", id, value, accepted) / ("val", id, bytes, accepted)


def install_config(ncp, store: ConfigStore | None = None):
    store = store or ConfigStore()
    ncp.state["config"] = store

    def get_cfg(n, a):
        cid = int(a["configId"])
        if cid in store.unreadable or cid not in store.values:
            return [status(n, "getConfigurationValue", "invalid_id"), 0]
        return [status(n, "getConfigurationValue", "ok"), store.values[cid]]

    def set_cfg(n, a):
        cid, val = int(a["configId"]), int(a["value"])
        ok = cid not in store.reject
        store.log.append(("cfg", cid, val, ok))
        if ok:
            store.values[cid] = val
            return [status(n, "setConfigurationValue", "ok")]
        if isinstance(store.reject, dict) and store.reject[cid] is not None:
            return [store.reject[cid]]
        return [status(n, "setConfigurationValue", "invalid_value")]

    def get_val(n, a):
        vid = int(a["valueId"])
        if vid in store.unreadable_values or vid not in store.ezsp_values:
            return [status(n, "getValue", "invalid_id"), b""]
        return [status(n, "getValue", "ok"), store.ezsp_values[vid]]

    def set_val(n, a):
        vid, val = int(a["valueId"]), bytes(a["value"])
        ok = vid not in store.reject_values
        store.log.append(("val", vid, val, ok))
        if ok:
            store.ezsp_values[vid] = val
            return [status(n, "setValue", "ok")]
        return [status(n, "setValue", "invalid_value")]

    ncp.handlers.update(getConfigurationValue=get_cfg, setConfigurationValue=set_cfg, getValue=get_val, setValue=set_val)
    return store


# ---- multicast table -----------------------------------------------------------------------
CONFIG_MULTICAST_TABLE_SIZE = 0x06


class MulticastTable:
    def __init__(self, entries):
        # entries: list of (multicastId, endpoint, networkIndex)
        self.entries = [list(e) for e in entries]
        self.answers: list = []  # per table write: "ok" | "reject:<kind>" | "timeout"
        self.writes: list = []  # (index, multicastId, endpoint, answer)
        self.size_readable = True

    def subscribed(self):
        return sorted(e[0] for e in self.entries if e[1] != 0)

    def free(self):
        return [i for i, e in enumerate(self.entries) if e[1] == 0]


def install_multicast(ncp, table: MulticastTable):
    import bellows.types as t

    ncp.state["multicast"] = table

    def get_cfg(n, a):
        cid = int(a["configId"])
        if cid == CONFIG_MULTICAST_TABLE_SIZE:
            if not table.size_readable:
                return [status(n, "getConfigurationValue", "invalid_id"), 0]
            return [status(n, "getConfigurationValue", "ok"), len(table.entries)]
        return [status(n, "getConfigurationValue", "invalid_id"), 0]

    def mk(e):
        ent = t.EmberMulticastTableEntry()
        ent.multicastId = t.EmberMulticastId(e[0])
        ent.endpoint = t.uint8_t(e[1])
        ent.networkIndex = t.uint8_t(e[2])
        return ent

    def get_entry(n, a):
        i = int(a["index"])
        if i >= len(table.entries):
            return [status(n, "getMulticastTableEntry", "invalid_index"), mk((0, 0, 0))]
        return [status(n, "getMulticastTableEntry", "ok"), mk(table.entries[i])]

    def set_entry(n, a):
        i = int(a["index"])
        v = a["value"]
        ans = table.answers.pop(0) if table.answers else "ok"
        table.writes.append((i, int(v.multicastId), int(v.endpoint), ans))
        if ans == "timeout":
            return None  # not applied, never answered
        if ans.startswith("reject"):
            kind = ans.split(":")[1]
            if kind.startswith("#"):
                return [int(kind[1:])]  # raw status code
            return [status(n, "setMulticastTableEntry", kind)]
        if i >= len(table.entries):
            return [status(n, "setMulticastTableEntry", "invalid_index")]
        table.entries[i] = [int(v.multicastId), int(v.endpoint), int(v.networkIndex)]
        return [status(n, "setMulticastTableEntry", "ok")]

    ncp.handlers.update(getConfigurationValue=get_cfg, getMulticastTableEntry=get_entry, setMulticastTableEntry=set_entry)
    return table


# ---- network / security / tables (Appendix A) ------------------------------------------------
class InvalidCmd(Exception):
    """Handler wants the NCP to answer invalidCommand (command not implemented by the firmware)."""


CFG_KEY_TABLE_SIZE, CFG_ADDRESS_TABLE_SIZE, CFG_SECURITY_LEVEL = 0x1E, 0x05, 0x0D
VAL_FREE_BUFFERS, VAL_VERSION_INFO, VAL_NWK_FC, VAL_APS_FC = 0x03, 0x11, 0x23, 0x24
NV3_CREATOR_RESTORED_EUI64, NV3_NVM3_RESTORED_EUI64 = 0xE12A, 0x1E12A
MFG_STRING, MFG_BOARD_NAME, MFG_CUSTOM_EUI_64 = 0x01, 0x02, 0x0C
FF8 = b"\xff" * 8
INIT_HASHED = 0x0084
INIT_HAVE_TC_EUI64 = 0x0040


class NetState:
    def __init__(self, eui64=bytes(range(0x10, 0x18)), nv3_token=NV3_CREATOR_RESTORED_EUI64):
        self.eui64_factory = bytes(eui64)
        self.nv3_token = nv3_token  # None: firmware without the NV3 token interface
        self.nv3_eui64 = None
        self.mfg = {MFG_STRING: b"Acme".ljust(16, b"\xff"), MFG_BOARD_NAME: b"Board-1".ljust(16, b"\xff"),
                    MFG_CUSTOM_EUI_64: FF8}
        self.network = None  # dict(params=<EmberNetworkParameters>, node_type, node_id)
        self.stack_up = False
        self.security = None  # dict(bitmask, preconfigured, network_key, seq, tc_eui64)
        self.nwk_fc = 0
        self.aps_fc = 0
        self.key_table = {}  # index -> dict(eui64, key, out_fc, in_fc)
        self.refuse_partners = {}  # partner EUI64 -> status kind: link keys for these are refused
        self.children = {}  # index -> dict(eui64, nwk, type)
        self.address_table = {}  # index -> (nwk, eui64)
        self.policies = {}
        self.counters = [0] * 41
        self.free_buffers = 0xF0
        self.log = []  # noteworthy requests, e.g. ("setInitialSecurityState", raw bytes)
        self.resets = 0

    def eui64(self):
        if self.nv3_eui64 is not None:
            return self.nv3_eui64
        if self.mfg[MFG_CUSTOM_EUI_64] != FF8:
            return self.mfg[MFG_CUSTOM_EUI_64]
        return self.eui64_factory


def install_network(ncp, net: NetState | None = None, store: ConfigStore | None = None):
    import bellows.types as t

    net = net or NetState()
    ncp.state["net"] = net
    store = install_config(ncp, store or ncp.state.get("config") or ConfigStore())
    store.values.setdefault(CFG_KEY_TABLE_SIZE, 4)
    store.values.setdefault(CFG_ADDRESS_TABLE_SIZE, 8)
    store.values.setdefault(CFG_SECURITY_LEVEL, 5)
    store.values.setdefault(CONFIG_MULTICAST_TABLE_SIZE, 8)
    mtab = ncp.state.get("multicast") or MulticastTable([(0, 0, 0)] * 8)
    install_multicast(ncp, mtab)
    cfg_get_multicast = ncp.handlers["getConfigurationValue"]

    def S(cmd, kind, field="status"):
        return status(ncp, cmd, kind, field)

    def eui(b):
        return t.EUI64.deserialize(bytes(b))[0]

    def stack_status(kind, delay=0.01):
        ncp.callback("stackStatusHandler", [S("stackStatusHandler", kind)], delay)

    def on_reset():
        net.stack_up = False
        net.resets += 1

    ncp.on_reset = on_reset

    # .. configuration values with live table sizes
    def get_cfg(n, a):
        cid = int(a["configId"])
        if cid == CONFIG_MULTICAST_TABLE_SIZE:
            return cfg_get_multicast(n, a)
        if cid in store.unreadable or cid not in store.values:
            return [S("getConfigurationValue", "invalid_id"), 0]
        return [S("getConfigurationValue", "ok"), store.values[cid]]

    def get_val(n, a):
        vid = int(a["valueId"])
        if vid == VAL_VERSION_INFO:
            return [S("getValue", "ok"), bytes([0x2A, 0x01, 7, 4, 1, 0, 0])]  # build 298, 7.4.1.0
        if vid == VAL_FREE_BUFFERS:
            return [S("getValue", "ok"), bytes([net.free_buffers])]
        if vid in store.unreadable_values or vid not in store.ezsp_values:
            return [S("getValue", "invalid_id"), b""]
        return [S("getValue", "ok"), store.ezsp_values[vid]]

    def set_val(n, a):
        vid, val = int(a["valueId"]), bytes(a["value"])
        if vid in (VAL_NWK_FC, VAL_APS_FC):
            if net.stack_up or len(val) != 4:
                return [S("setValue", "invalid_call")]
            fc = int.from_bytes(val, "little")
            if vid == VAL_NWK_FC:
                net.nwk_fc = fc
            else:
                net.aps_fc = fc
            net.log.append(("frame_counter", vid, fc))
            return [S("setValue", "ok")]
        ok = vid not in store.reject_values
        store.log.append(("val", vid, val, ok))
        if ok:
            store.ezsp_values[vid] = val
            return [S("setValue", "ok")]
        return [S("setValue", "invalid_value")]

    # .. network
    def network_state(n, a):
        return [2 if net.stack_up else 0]

    def network_init(name):
        def h(n, a):
            if net.network is None:
                return [S(name, "not_joined")]
            net.stack_up = True
            stack_status("network_up")
            return [S(name, "ok")]
        return h

    def zero_params():
        return t.EmberNetworkParameters.deserialize(bytes(40))[0]

    def get_params(n, a):
        if not net.stack_up:
            return [S("getNetworkParameters", "not_joined"), 0, zero_params()]
        return [S("getNetworkParameters", "ok"), net.network["node_type"], net.network["params"]]

    def form(n, a):
        if net.stack_up:
            return [S("formNetwork", "invalid_call")]
        net.network = {"params": a["parameters"], "node_type": 1, "node_id": 0x0000}
        net.stack_up = True
        net.log.append(("formNetwork", a["parameters"]))
        stack_status("network_up")
        return [S("formNetwork", "ok")]

    def leave(n, a):
        if not net.stack_up:
            return [S("leaveNetwork", "invalid_call")]
        net.stack_up = False
        net.network = None
        net.security = None
        net.children.clear()
        stack_status("network_down")
        return [S("leaveNetwork", "ok")]

    def node_id(n, a):
        return [net.network["node_id"] if net.network else 0xFFFE]

    def get_eui64(n, a):
        return [eui(net.eui64())]

    # .. security
    def cur_sec(n, a):
        z = t.EmberCurrentSecurityState.deserialize(bytes(12))[0]
        if not net.stack_up or net.security is None:
            return [S("getCurrentSecurityState", "not_joined"), z]
        st = t.EmberCurrentSecurityState()
        bm = 0x10 | 0x04
        if net.security["bitmask"] & INIT_HASHED == INIT_HASHED:
            bm |= INIT_HASHED
        st.bitmask = t.EmberCurrentSecurityBitmask(bm)
        st.trustCenterLongAddress = eui(net.eui64())  # a coordinator is its own trust centre
        return [S("getCurrentSecurityState", "ok"), st]

    def set_init_sec(n, a):
        s = a["state"]
        if net.stack_up:
            return [S("setInitialSecurityState", "invalid_call")]
        net.security = dict(bitmask=int(s.bitmask), preconfigured=bytes(s.preconfiguredKey.serialize()),
                            network_key=bytes(s.networkKey.serialize()), seq=int(s.networkKeySequenceNumber),
                            tc_eui64=bytes(s.preconfiguredTrustCenterEui64.serialize()))
        net.log.append(("setInitialSecurityState", ncp.requests[-1][4]))
        return [S("setInitialSecurityState", "ok")]

    def keydata(b):
        return t.KeyData.deserialize(bytes(b))[0]

    def key_struct(ktype, key, out_fc=None, in_fc=None, seq=None, partner=None):
        ks = t.EmberKeyStruct()
        bm = 0
        ks.type = t.EmberKeyType(ktype)
        ks.key = keydata(key)
        ks.outgoingFrameCounter = t.uint32_t(out_fc or 0)
        ks.incomingFrameCounter = t.uint32_t(in_fc or 0)
        ks.sequenceNumber = t.uint8_t(seq or 0)
        ks.partnerEUI64 = eui(partner if partner is not None else bytes(8))
        if seq is not None:
            bm |= 0x01
        if out_fc is not None:
            bm |= 0x02
        if in_fc is not None:
            bm |= 0x04
        if partner is not None:
            bm |= 0x08
        ks.bitmask = t.EmberKeyStructBitmask(bm)
        return ks

    def get_key(n, a):
        kt = int(a["keyType"])
        z = key_struct(kt, bytes(16))
        if not net.stack_up or net.security is None:
            return [S("getKey", "not_joined"), z]
        if kt == 0x03:
            return [S("getKey", "ok"), key_struct(kt, net.security["network_key"], out_fc=net.nwk_fc, seq=net.security["seq"])]
        if kt == 0x01:
            return [S("getKey", "ok"), key_struct(kt, net.security["preconfigured"], out_fc=net.aps_fc, partner=FF8)]
        return [S("getKey", "not_found"), z]

    def export_key(n, a):
        ctx = a["context"]
        kt = int(ctx.core_key_type)
        out = {"context": ctx, "key": keydata(bytes(16)), "status": S("exportKey", "not_found")}
        if net.security is not None:
            if kt == 0x01:
                out.update(key=keydata(net.security["network_key"]), status=S("exportKey", "ok"))
            elif kt == 0x02:
                out.update(key=keydata(net.security["preconfigured"]), status=S("exportKey", "ok"))
        return out

    def nwk_key_info(n, a):
        info = t.SecurityManagerNetworkKeyInfo()
        have = net.security is not None
        info.network_key_set = t.Bool(1 if have else 0)
        info.alternate_network_key_set = t.Bool(0)
        info.network_key_sequence_number = t.uint8_t(net.security["seq"] if have else 0)
        info.alt_network_key_sequence_number = t.uint8_t(0)
        info.network_key_frame_counter = t.uint32_t(net.nwk_fc)
        return {"status": S("getNetworkKeyInfo", "ok"), "network_key_info": info}

    def kt_size():
        return store.values.get(CFG_KEY_TABLE_SIZE, 0)

    def get_kt_entry(n, a):
        i = int(a["index"])
        z = key_struct(0x05, bytes(16))
        if i >= kt_size():
            return [S("getKeyTableEntry", "invalid_index"), z]
        e_ = net.key_table.get(i)
        if e_ is None:
            return [S("getKeyTableEntry", "erased"), z]
        return [S("getKeyTableEntry", "ok"),
                key_struct(0x05, e_["key"], out_fc=e_["out_fc"], in_fc=e_["in_fc"], partner=e_["eui64"])]

    def add_kt_entry(n, a):
        addr = bytes(a["address"].serialize())
        if addr in net.refuse_partners:
            net.log.append(("link_key_refused", addr))
            return [S("addOrUpdateKeyTableEntry", net.refuse_partners[addr])]
        idx = next((i for i, e_ in net.key_table.items() if e_["eui64"] == addr), None)
        if idx is None:
            idx = next((i for i in range(kt_size()) if i not in net.key_table), None)
        if idx is None:
            return [S("addOrUpdateKeyTableEntry", "fatal")]
        net.key_table[idx] = dict(eui64=addr, key=bytes(a["keyData"].serialize()), out_fc=0, in_fc=0)
        return [S("addOrUpdateKeyTableEntry", "ok")]

    def import_link_key(n, a):
        i = int(a["index"])
        if i >= kt_size():
            return [S("importLinkKey", "invalid_index")]
        if bytes(a["address"].serialize()) in net.refuse_partners:
            net.log.append(("link_key_refused", bytes(a["address"].serialize())))
            return [S("importLinkKey", net.refuse_partners[bytes(a["address"].serialize())])]
        net.key_table[i] = dict(eui64=bytes(a["address"].serialize()), key=bytes(a["key"].serialize()), out_fc=0, in_fc=0)
        return [S("importLinkKey", "ok")]

    def export_link_key(n, a):
        i = int(a["index"])
        e_ = net.key_table.get(i) if i < kt_size() else None
        meta = t.SecurityManagerAPSKeyMetadata()
        meta.bitmask = t.EmberKeyStructBitmask(0x0E if e_ else 0)
        meta.outgoing_frame_counter = t.uint32_t(e_["out_fc"] if e_ else 0)
        meta.incoming_frame_counter = t.uint32_t(e_["in_fc"] if e_ else 0)
        meta.ttl_in_seconds = t.uint16_t(0)
        ctx = t.SecurityManagerContextV13.deserialize(bytes(40))[0]
        ctx.core_key_type = t.SecurityManagerKeyType(0x04)
        ctx.key_index = t.uint8_t(i)
        if e_:
            ctx.eui64 = eui(e_["eui64"])
            ctx.flags = t.SecurityManagerContextFlags(0x01 | 0x02) if hasattr(t, "SecurityManagerContextFlags") else ctx.flags
        return {"status": S("exportLinkKeyByIndex", "ok" if e_ else "not_found"), "context": ctx,
                "eui64": eui(e_["eui64"] if e_ else bytes(8)), "plaintext_key": keydata(e_["key"] if e_ else bytes(16)),
                "key_data": meta}

    def clear_kt(n, a):
        net.key_table.clear()
        return [S("clearKeyTable", "ok")]

    def token_factory_reset(n, a):
        net.network = None
        net.security = None
        net.stack_up = False
        net.children.clear()
        net.key_table.clear()
        net.nwk_fc = net.aps_fc = 0
        return []

    # .. children / address table
    def get_child(n, a):
        i = int(a["index"])
        c = net.children.get(i)
        ver = n.table_version
        cd_cls = t.EmberChildDataV10 if ver >= 10 else t.EmberChildDataV7
        cd = cd_cls.deserialize(bytes(32))[0]
        if c is not None:
            cd.eui64, cd.type, cd.id = eui(c["eui64"]), t.EmberNodeType(c["type"]), t.EmberNodeId(c["nwk"])
        st_ = S("getChildData", "ok" if c else "not_joined")
        return {"status": st_, "childId": c["nwk"] if c else 0xFFFF, "childEui64": eui(c["eui64"] if c else FF8),
                "childType": c["type"] if c else 0, "childData": cd, "child_data": cd}

    def set_child(n, a):
        cd = a["child_data"]
        net.children[int(a["index"])] = dict(eui64=bytes(cd.eui64.serialize()), nwk=int(cd.id), type=int(cd.type))
        return [S("setChildData", "ok")]

    def at_size():
        return store.values.get(CFG_ADDRESS_TABLE_SIZE, 0)

    def at_node(n, a):
        e_ = net.address_table.get(int(a["addressTableIndex"]))
        return [e_[0] if e_ else 0xFFFF]

    def at_eui(n, a):
        e_ = net.address_table.get(int(a["addressTableIndex"]))
        return [eui(e_[1] if e_ else bytes(8))]

    def at_info(n, a):
        i = int(a["index"])
        e_ = net.address_table.get(i)
        if i >= at_size() or e_ is None:
            return {"status": S("getAddressTableInfo", "not_found" if i < at_size() else "invalid_index"),
                    "nwk": 0xFFFF, "eui64": eui(bytes(8))}
        return {"status": S("getAddressTableInfo", "ok"), "nwk": e_[0], "eui64": eui(e_[1])}

    # .. tokens
    def get_mfg(n, a):
        return [net.mfg.get(int(a["tokenId"]), b"")]

    def set_mfg(n, a):
        tid = int(a["tokenId"])
        if tid == MFG_CUSTOM_EUI_64 and net.mfg[tid] == FF8:
            net.mfg[tid] = bytes(a["tokenData"])
            return [S("setMfgToken", "ok")]
        return [S("setMfgToken", "fatal")]

    def get_token(n, a):
        if net.nv3_token is None:
            raise InvalidCmd()
        schema = n.COMMANDS["getTokenData"][2]
        tok = int(a["token"])
        if tok == net.nv3_token:
            val = net.nv3_eui64 if net.nv3_eui64 is not None else FF8
            return schema(status=schema.deserialize(bytes(8))[0].status.__class__(0), value=t.LVBytes32(val))
        fam = type(schema.deserialize(bytes(8))[0].status)
        bad = SL["not_found"] if fam.__name__ == "sl_Status" else EMBER["fatal"]
        return schema(status=fam(bad), value=t.LVBytes32(b""))

    def set_token(n, a):
        if net.nv3_token is None:
            raise InvalidCmd()
        if int(a["token"]) == net.nv3_token:
            data = bytes(a["token_data"])
            net.nv3_eui64 = None if data == FF8 else data
            return [S("setTokenData", "ok")]
        return [S("setTokenData", "fatal")]

    def read_counters(n, a):
        return [list(net.counters)]

    def read_clear_counters(n, a):
        v = list(net.counters)
        net.counters = [0] * len(net.counters)
        return [v]

    def ok_of(name):
        return lambda n, a: [S(name, "ok")]

    H = dict(
        getConfigurationValue=get_cfg, getValue=get_val, setValue=set_val, networkState=network_state,
        networkInit=network_init("networkInit"), networkInitExtended=network_init("networkInitExtended"),
        getNetworkParameters=get_params, formNetwork=form, leaveNetwork=leave, getNodeId=node_id, getEui64=get_eui64,
        getCurrentSecurityState=cur_sec, setInitialSecurityState=set_init_sec, getKey=get_key, exportKey=export_key,
        getNetworkKeyInfo=nwk_key_info, getKeyTableEntry=get_kt_entry, addOrUpdateKeyTableEntry=add_kt_entry,
        importLinkKey=import_link_key, exportLinkKeyByIndex=export_link_key, clearKeyTable=clear_kt,
        tokenFactoryReset=token_factory_reset, getChildData=get_child, setChildData=set_child,
        getAddressTableRemoteNodeId=at_node, getAddressTableRemoteEui64=at_eui, getAddressTableInfo=at_info,
        getMfgToken=get_mfg, setMfgToken=set_mfg, getTokenData=get_token, setTokenData=set_token,
        readCounters=read_counters, readAndClearCounters=read_clear_counters,
        nop=lambda n, a: [], setManufacturerCode=lambda n, a: [],
        setSourceRouteDiscoveryMode=lambda n, a: [0],
        findKeyTableEntry=lambda n, a: [0xFF],
    )
    for name in ("setPolicy", "setConcentrator", "addEndpoint", "permitJoining", "addTransientLinkKey",
                 "importTransientKey", "eraseKeyTableEntry", "setSourceRoute"):
        H[name] = ok_of(name)
    for name, h in H.items():
        if name in ncp.COMMANDS:
            ncp.handlers[name] = h
    return net
