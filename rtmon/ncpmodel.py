"""Stateful default handlers for rtmon.ncpsim.FrameNcp (DESIGN Appendix A).

Plain storage semantics only.  Handlers are functions (ncp, args) -> values in declared
order (or None for silence); status values are chosen in the status family of the field's
declared type (EmberStatus / EzspStatus below v14, sl_Status from v14).
"""
from __future__ import annotations

EMBER = dict(ok=0x00, fatal=0x01, bad_argument=0x02, not_found=0x03, invalid_index=0xB1, erased=0xB6,
             not_joined=0x93, invalid_call=0x70, max_limit=0x72, network_busy=0xA1, no_buffers=0x18,
             network_down=0x91, network_up=0x90, delivery_failed=0x66, undefined=0x77)
EZSPS = dict(ok=0x00, fatal=0x38, invalid_value=0x36, invalid_id=0x37, oom=0x35, invalid_call=0x38,
             invalid_index=0x36, not_found=0x37, undefined=0xEE)
SL = dict(ok=0x0000, fatal=0x0001, invalid_index=0x0027, not_found=0x002D, erased=0x002D, not_joined=0x0017,
          invalid_call=0x0002, max_limit=0x0C03, transmit_busy=0x0034, no_buffers=0x0019, network_busy=0x0C03,
          network_down=0x0016, network_up=0x0015, invalid_value=0x0021, invalid_id=0x0021, oom=0x0019,
          delivery_failed=0x0C01, bad_argument=0x0021, undefined=0x7777)


def status(ncp, cmd, kind, field="status"):
    schema = ncp.COMMANDS[cmd][2]
    T = schema[field] if isinstance(schema, dict) else None
    fam = getattr(T, "__name__", "")
    if fam == "sl_Status":
        return SL[kind]
    if fam == "EzspStatus":
        return EZSPS.get(kind, EZSPS["fatal"])
    return EMBER.get(kind, EMBER["fatal"])


# ---- configuration store -------------------------------------------------------------------
class ConfigStore:
    def __init__(self):
        self.values: dict[int, int] = {}  # configId -> value
        self.unreadable: set[int] = set()
        self.reject: set[int] = set()  # configIds whose set is answered with an error
        self.ezsp_values: dict[int, bytes] = {}
        self.reject_values: set[int] = set()
        self.unreadable_values: set[int] = set()
        self.log: list = []  # ("cfg", id, value, accepted) / ("val", id, bytes, accepted)


def install_config(ncp, store: ConfigStore | None = None):
    store = store or ConfigStore()
    ncp.state["config"] = store

    def get_cfg(n, a):
        cid = int(a["configId"])
        if cid in store.unreadable or cid not in store.values:
            return [status(n, "getConfigurationValue", "invalid_id"), 0]
        return [status(n, "getConfigurationValue", "ok"), store.values[cid]]

    def set_cfg(n, a):
        cid, val = int(a["configId"]), int(a["value"])
        ok = cid not in store.reject
        store.log.append(("cfg", cid, val, ok))
        if ok:
            store.values[cid] = val
            return [status(n, "setConfigurationValue", "ok")]
        return [status(n, "setConfigurationValue", "invalid_value")]

    def get_val(n, a):
        vid = int(a["valueId"])
        if vid in store.unreadable_values or vid not in store.ezsp_values:
            return [status(n, "getValue", "invalid_id"), b""]
        return [status(n, "getValue", "ok"), store.ezsp_values[vid]]

    def set_val(n, a):
        vid, val = int(a["valueId"]), bytes(a["value"])
        ok = vid not in store.reject_values
        store.log.append(("val", vid, val, ok))
        if ok:
            store.ezsp_values[vid] = val
            return [status(n, "setValue", "ok")]
        return [status(n, "setValue", "invalid_value")]

    ncp.handlers.update(getConfigurationValue=get_cfg, setConfigurationValue=set_cfg, getValue=get_val, setValue=set_val)
    return store


# ---- multicast table -----------------------------------------------------------------------
CONFIG_MULTICAST_TABLE_SIZE = 0x06


class MulticastTable:
    def __init__(self, entries):
        # entries: list of (multicastId, endpoint, networkIndex)
        self.entries = [list(e) for e in entries]
        self.answers: list = []  # per table write: "ok" | "reject:<kind>" | "timeout"
        self.writes: list = []  # (index, multicastId, endpoint, answer)
        self.size_readable = True

    def subscribed(self):
        return sorted(e[0] for e in self.entries if e[1] != 0)

    def free(self):
        return [i for i, e in enumerate(self.entries) if e[1] == 0]


def install_multicast(ncp, table: MulticastTable):
    import bellows.types as t

    ncp.state["multicast"] = table

    def get_cfg(n, a):
        cid = int(a["configId"])
        if cid == CONFIG_MULTICAST_TABLE_SIZE:
            if not table.size_readable:
                return [status(n, "getConfigurationValue", "invalid_id"), 0]
            return [status(n, "getConfigurationValue", "ok"), len(table.entries)]
        return [status(n, "getConfigurationValue", "invalid_id"), 0]

    def mk(e):
        ent = t.EmberMulticastTableEntry()
        ent.multicastId = t.EmberMulticastId(e[0])
        ent.endpoint = t.uint8_t(e[1])
        ent.networkIndex = t.uint8_t(e[2])
        return ent

    def get_entry(n, a):
        i = int(a["index"])
        if i >= len(table.entries):
            return [status(n, "getMulticastTableEntry", "invalid_index"), mk((0, 0, 0))]
        return [status(n, "getMulticastTableEntry", "ok"), mk(table.entries[i])]

    def set_entry(n, a):
        i = int(a["index"])
        v = a["value"]
        ans = table.answers.pop(0) if table.answers else "ok"
        table.writes.append((i, int(v.multicastId), int(v.endpoint), ans))
        if ans == "timeout":
            return None  # not applied, never answered
        if ans.startswith("reject"):
            return [status(n, "setMulticastTableEntry", ans.split(":")[1])]
        if i >= len(table.entries):
            return [status(n, "setMulticastTableEntry", "invalid_index")]
        table.entries[i] = [int(v.multicastId), int(v.endpoint), int(v.networkIndex)]
        return [status(n, "setMulticastTableEntry", "ok")]

    ncp.handlers.update(getConfigurationValue=get_cfg, getMulticastTableEntry=get_entry, setMulticastTableEntry=set_entry)
    return table
