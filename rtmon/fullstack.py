"""Full stack on the faulty line (DESIGN 9.2).

The one composition the per-property checks do not produce on their own: the real
ControllerApplication + real EZSP + real Gateway + real AshProtocol, created through the public
`ControllerApplication.connect()` (only `zigpy.serial.create_serial_connection` is replaced), talking over
the faulty FIFO line (rtmon/line.py) to the independent NCP-side ASH endpoint (rtmon/ashref.py) and the
stateful frame-level NCP model (rtmon/ncpsim.py, rtmon/ncpmodel.py).  The traffic is what a coordinator
carries: unicasts waiting for their delivery confirmations, incoming messages, keep-alives - all of it
subject to ASH retransmission, duplicates and stalls.

One soak = bring-up on a clean line, then R rounds with a seeded fault rate, then a clean tail.  Histories
are recorded at four boundaries (application calls, EZSP frames in and out of the host's ASH layer, EZSP
frames in and out of the NCP's ASH layer, packets handed to zigpy) and judged offline by rules that belong
to three properties; a hosting check keeps the violations of its own property:

 C01  EZSP frames handed up on either side are an in-order duplicate-free subsequence of what the other side
      submitted; a host send that returned was handed up on the NCP exactly once before it returned; on a
      link that did not fail and ended clean nothing the NCP submitted is missing at the host
 C13  the packets handed to zigpy are exactly the incoming-message callbacks the host's EZSP layer received,
      once each, in order, field for field
 C12  a unicast returns only if its own acceptance and its own success confirmation were delivered to the
      host before it returned; it raises a delivery error only if a refusal, a failed confirmation or three
      busy answers were delivered; nothing is left in the pending table at quiescence
"""
from __future__ import annotations

from .excfam import family

import asyncio
import random

from . import appharness, ncpmodel, wire
from . import ezspref as X


class _Tap(list):
    """The wire stack's trace list: EZSP frames in / out of the NCP's ASH endpoint are copied as they happen."""

    def __init__(self, ncp_rx, ncp_tx):
        super().__init__()
        self._rx, self._tx = ncp_rx, ncp_tx

    def append(self, ev):
        if ev[0] == "ezsp_rx":
            self._rx.append(ev[2])
        elif ev[0] == "ezsp_tx":
            self._tx.append(ev[2])
        if len(self) < 200000:
            super().append(ev)


def _subsequence(sub, full):
    """Greedy left-to-right embedding of `sub` into `full`; -> (index list | None, first element that does not fit)."""
    idx, j = [], 0
    for x in sub:
        while j < len(full) and full[j] != x:
            j += 1
        if j == len(full):
            return None, x
        idx.append(j)
        j += 1
    return idx, None


async def soak(loop, acc, V, seed, rounds=12, rate=0.08, chunking="whole", window=1):
    """-> list of (property, key, message, history) ; reach counters go to `acc`."""
    import zigpy.config as zc
    import zigpy.exceptions
    import zigpy.types as zt

    import bellows.zigbee.application as A
    from .checks.c12 import parse_send_unicast, enc_message_sent, EMBER_ST, SL_ST
    from .checks.c13 import enc_incoming

    rnd = random.Random(seed * 7919 + V * 31 + 5)
    out = []
    ST = SL_ST if V >= 14 else EMBER_ST
    ncp_rx, ncp_tx, host_tx, host_rx, packets = [], [], [], [], []
    trace = _Tap(ncp_rx, ncp_tx)
    ws = wire.WireStack(loop, V, trace=trace, rate=0.0, seed=seed, chunking=chunking, window=window)
    net = ncpmodel.install_network(ws.ncp)
    appharness.preformed_network(net)
    appharness.install_requests_shim()
    ws.install_serial()
    cfg = {zc.CONF_DEVICE: {zc.CONF_DEVICE_PATH: "/dev/ttyVERIF"}, "use_thread": False, zc.CONF_DATABASE: None}
    app = A.ControllerApplication(cfg)
    clock = loop.time
    link = {"failed": None}
    try:
        try:
            await app.connect()
            await app.start_network()
        except BaseException as e:  # noqa: BLE001
            out.append(("*", "setup/fault-free-full-stack-start-failed",
                        f"v{V}: ControllerApplication.connect()/start_network() over a clean serial line ended with {e!r}; "
                        f"last requests: {[(r[1], r[5]) for r in ws.ncp.requests[-6:]]}", None))
            return out
        import bellows.ezsp as ezsp_mod

        ezsp = next((v for v in vars(app).values() if isinstance(v, ezsp_mod.EZSP)), None) or app._ezsp
        proto = ws.protocol
        own = int(app.state.node_info.nwk)
        # ---- taps at the boundaries (instance attributes; the code under test looks them up per call)
        orig_send = proto.send_data

        async def send_data(data):
            rec = {"data": bytes(data), "t0": clock(), "res": None, "nrx": None}
            host_tx.append(rec)
            try:
                r = await orig_send(data)
            except asyncio.CancelledError:
                rec["res"] = "cancelled"
                raise
            except BaseException as e:  # noqa: BLE001
                rec["res"] = "exc:" + family(e)
                raise
            rec["res"], rec["nrx"] = "ok", len(ncp_rx)
            return r

        proto.send_data = send_data
        orig_fr = ezsp.frame_received

        def frame_received(data):
            host_rx.append((clock(), bytes(data)))
            return orig_fr(data)

        ezsp.frame_received = frame_received
        app.packet_received = lambda pkt: packets.append((clock(), pkt))
        orig_cl = app.connection_lost

        def connection_lost(exc):
            if link["failed"] is None:
                link["failed"] = (clock(), repr(exc)[:80])
            return orig_cl(exc)

        app.connection_lost = connection_lost
        n_rx0, n_tx0, h_tx0, h_rx0 = len(ncp_rx), len(ncp_tx), len(host_tx), len(host_rx)

        # ---- NCP behaviour for sends
        reqs_by_dest = {}
        incoming = {}  # frame bytes -> fields

        def h_send_unicast(n, a):
            raw, seq = n.requests[-1][4], n.requests[-1][3]
            p = parse_send_unicast(V, raw)
            r = reqs_by_dest.get(p["dest"])
            if r is None:
                return [ST["ok"], 0]
            k = r["attempt"]
            r["attempt"] += 1
            st = (r["enq"] + ["ok"] * 16)[k] if k < 16 else "ok"
            r["tags"].append(p["tag"])
            r["replies"].append((seq, st))
            if st == "ok":
                status = ST["ok"] if r["conf"] == "success" else ST["fail"]
                if r["conf"] != "none":
                    # callbacks carry the sequence number of the last *completed* command, as NCPs do
                    fr = enc_message_sent(V, (seq - 1) % 256, 0, p["dest"], p["aps"], p["tag"], status, b"")
                    r["conf_frames"].append(fr)
                    n._send(fr, r["conf_delay"])
            return [ST[st], 0x11]

        ws.ncp.handlers["sendUnicast"] = h_send_unicast
        ws.ncp.handlers["sendMulticast"] = lambda n, a: [ST["ok"], 0x11]
        ws.ncp.handlers["sendBroadcast"] = lambda n, a: [ST["ok"], 0x11]

        # ---- rounds
        ws.line.rate = rate
        ws.line.armed = True
        all_reqs = []
        dest_no = 0
        in_no = 0
        for rno in range(rounds):
            if link["failed"]:
                break
            if rno == rounds - 1:
                ws.line.rate = 0.0  # clean tail: what is outstanding gets through
            tasks = []
            for i in range(rnd.choice([1, 2, 2, 3, 4])):
                dest_no += 1
                dest = 0x1000 + dest_no
                r = dict(dest=dest, enq=[rnd.choice(["ok", "ok", "ok", "busy_max", "busy_net", "ref_call"]) for _ in range(3)],
                         conf=rnd.choice(["success", "success", "fail", "none" if rno < rounds - 3 else "success"]),
                         conf_delay=rnd.choice([0.0, 0.02, 0.3, 2.0]), attempt=0, tags=[], replies=[], conf_frames=[],
                         outcome=None, t_end=None, hrx_at_end=None, payload=b"S%05d" % dest_no)
                reqs_by_dest[dest] = r
                all_reqs.append(r)
                pkt = zt.ZigbeePacket(
                    src=zt.AddrModeAddress(addr_mode=zt.AddrMode.NWK, address=zt.NWK(own)), src_ep=1,
                    dst=zt.AddrModeAddress(addr_mode=zt.AddrMode.NWK, address=zt.NWK(dest)), dst_ep=1, tsn=dest_no & 0xFF,
                    profile_id=0x0104, cluster_id=0x0006, data=zt.SerializableBytes(r["payload"]),
                    tx_options=zt.TransmitOptions.ACK, radius=5)

                async def one(r=r, pkt=pkt):
                    try:
                        await app.send_packet(pkt)
                        r["outcome"] = "ret"
                    except zigpy.exceptions.DeliveryError as ex:
                        r["outcome"], r["exc"] = "DeliveryError", str(ex)[:80]
                    except asyncio.TimeoutError:
                        r["outcome"] = "TimeoutError"
                    except asyncio.CancelledError:
                        r["outcome"] = "cancelled"
                        raise
                    except BaseException as ex:  # noqa: BLE001
                        r["outcome"], r["exc"] = family(ex), str(ex)[:80]
                    r["t_end"], r["hrx_at_end"] = clock(), len(host_rx)

                tasks.append(asyncio.ensure_future(one()))
            for i in range(rnd.choice([0, 1, 2, 3, 5])):
                in_no += 1
                f = dict(type=rnd.choice([0, 0, 0, 2, 4, 1, 3]), profile=0x0104, cluster=rnd.randrange(0x10000), src_ep=rnd.randrange(1, 241),
                         dst_ep=1, options=0x0100, group=0x2000 + (in_no & 0xFF), aps_seq=in_no & 0xFF, lqi=rnd.randrange(256),
                         rssi=rnd.randrange(-128, 128), sender=0x3000 + (in_no % 0x1000), binding=0xFF, address=0xFF,
                         eui64=bytes(8), timestamp=in_no, payload=b"I%05d" % in_no + bytes(rnd.randrange(0, 40)))
                fr = enc_incoming(V, (ws.ncp.last_seq - 1) % 256, f)
                incoming[fr] = f
                ws.ncp._send(fr, rnd.choice([0.0, 0.01, 0.4, 1.5]))
            if rnd.random() < 0.3:
                tasks.append(asyncio.ensure_future(app._watchdog_feed()))
            done, pend = await asyncio.wait(tasks, timeout=A.APS_ACK_TIMEOUT + 60)
            for t_ in pend:
                t_.cancel()
            for t_ in done:
                t_.exception() if not t_.cancelled() else None
        ws.line.rate = 0.0
        await asyncio.sleep(30.0)  # clean tail: retransmissions and late confirmations drain
        acc.ev("fullstack_rounds", rounds)
        acc.ev("fullstack_line_faults", sum(sum(d.values()) for d in ws.line.faults_applied.values()))
        acc.ev("fullstack_host_ezsp_frames_sent", len(host_tx) - h_tx0)
        acc.ev("fullstack_host_ezsp_frames_received", len(host_rx) - h_rx0)
        if link["failed"]:
            acc.ev("fullstack_link_failed_runs")

        # ---- judge: C01 at the EZSP boundary ------------------------------------------------------------
        hist = [("faults", dict(ws.line.faults_applied)), ("link_failed", link["failed"])]
        subm = [rec["data"] for rec in host_tx]
        ncp_rx_, ncp_tx_ = ncp_rx[n_rx0:], ncp_tx[n_tx0:]  # bring-up traffic predates the host-side taps
        idx, miss = _subsequence(ncp_rx_, subm)
        if idx is None:
            out.append(("C01", "C01/fullstack/ncp-handed-up-frame-out-of-order-or-twice",
                        f"v{V}: the NCP's EZSP layer was handed {miss.hex()} which is not the next unconsumed frame the host submitted "
                        f"(handed up: {len(ncp_rx_)}, submitted: {len(subm)})", hist))
        else:
            where = {j: k for k, j in enumerate(idx)}
            for j, rec in enumerate(host_tx):
                if rec["res"] == "ok" and (j not in where or where[j] >= rec["nrx"] - n_rx0):
                    out.append(("C01", "C01/fullstack/completed-send-not-handed-up-before-return",
                                f"v{V}: host send #{j} {rec['data'].hex()} returned at t={rec.get('t0'):.3f}+ but the NCP's upper layer "
                                f"had not been handed it by then", hist))
                    break
        got = [d for _, d in host_rx]
        idx2, miss2 = _subsequence(got, ncp_tx_)
        if idx2 is None:
            out.append(("C01", "C01/fullstack/host-handed-up-frame-out-of-order-or-twice",
                        f"v{V}: the host's EZSP layer was handed {miss2.hex()} which is not the next unconsumed frame the NCP submitted "
                        f"(handed up: {len(got)}, submitted: {len(ncp_tx_)})", hist))
        elif not link["failed"] and len(got) != len(ncp_tx_):
            lost = [ncp_tx_[j].hex() for j in range(len(ncp_tx_)) if j not in set(idx2)][:3]
            out.append(("C01", "C01/fullstack/ncp-frame-lost-on-a-link-that-recovered",
                        f"v{V}: {len(ncp_tx_) - len(got)} frame(s) the NCP submitted never reached the host's EZSP layer although the "
                        f"link never failed and ended with 30 s of clean line: {lost}", hist))
        else:
            acc.hit("fullstack_c01_judged")

        # ---- judge: C13 -----------------------------------------------------------------------------------
        exp = [incoming[d] for _, d in host_rx if d in incoming and incoming[d]["type"] in (0, 2, 4)]
        mark = lambda b: bytes(b)[:6]
        gotp = [(mark(p.data.serialize()), p) for _, p in packets if bytes(p.data.serialize())[:1] == b"I"]
        if [mark(f["payload"]) for f in exp] != [m for m, _ in gotp]:
            a_, b_ = [mark(f["payload"]) for f in exp], [m for m, _ in gotp]
            k = next((i for i in range(min(len(a_), len(b_))) if a_[i] != b_[i]), min(len(a_), len(b_)))
            out.append(("C13", "C13/fullstack/packets-differ-from-callbacks-received",
                        f"v{V}: incoming-message callbacks delivered to the host's EZSP layer: {len(a_)}, packets handed to zigpy: {len(b_)}; "
                        f"first difference at #{k}: callback {a_[k:k + 2]} vs packet {b_[k:k + 2]}", hist))
        else:
            for f, (m, p) in zip(exp, gotp):
                want_dst = own if f["type"] == 0 else (f["group"] if f["type"] == 2 else 0xFFFD)
                obs = (int(p.src.address), int(p.src_ep), int(p.dst_ep), int(p.cluster_id), bytes(p.data.serialize()), int(p.lqi), int(p.rssi))
                want = (f["sender"], f["src_ep"], f["dst_ep"], f["cluster"], f["payload"], f["lqi"], f["rssi"])
                if obs != want or (f["type"] != 4 and int(p.dst.address) != want_dst):
                    out.append(("C13", "C13/fullstack/packet-fields-differ",
                                f"v{V}: callback {want} type {f['type']} became packet {obs} dst {p.dst}", hist))
                    break
            else:
                if exp:
                    acc.hit("fullstack_c13_judged")
                acc.ev("fullstack_incoming_packets", len(exp))

        # ---- judge: C12 -----------------------------------------------------------------------------------
        for r in all_reqs:
            if r["outcome"] is None or r["outcome"] == "cancelled":
                if not link["failed"]:
                    out.append(("C12", "C12/fullstack/send-never-ended",
                                f"v{V}: unicast to {r['dest']:#06x} (enqueue {r['enq']}, confirmation {r['conf']}) neither returned nor raised "
                                f"within APS_ACK_TIMEOUT + 60 s on a link that never failed", hist))
                    break
                continue
            upto = [d for _, d in host_rx[: r["hrx_at_end"]]]
            confs_ok = [fr for fr in r["conf_frames"] if r["conf"] == "success" and fr in upto]
            confs_bad = [fr for fr in r["conf_frames"] if r["conf"] == "fail" and fr in upto]
            refused = any(st.startswith("ref") for _, st in r["replies"])
            busy3 = sum(1 for _, st in r["replies"] if st.startswith("busy")) >= len(A.RETRY_DELAYS)
            if r["outcome"] == "ret" and not confs_ok:
                out.append(("C12", "C12/fullstack/returned-without-own-success-confirmation-delivered",
                            f"v{V}: unicast to {r['dest']:#06x} returned normally but no success confirmation for (dest, tag={r['tags']}) had "
                            f"been delivered to the host by then (script: enqueue {r['enq']}, confirmation {r['conf']})", hist))
                break
            if r["outcome"] == "DeliveryError" and not (confs_bad or refused or busy3 or link["failed"]):
                out.append(("C12", "C12/fullstack/delivery-error-without-refusal-or-failed-confirmation",
                            f"v{V}: unicast to {r['dest']:#06x} raised DeliveryError({r.get('exc')}) but the NCP neither refused it, nor was busy "
                            f"{len(A.RETRY_DELAYS)} times, nor confirmed failure (script: enqueue {r['enq']}, confirmation {r['conf']}; replies {r['replies']})", hist))
                break
            if r["outcome"] == "ret":
                acc.hit("fullstack_c12_confirmed_returns")
        else:
            from .checks.c12 import request_entries

            left = request_entries(app, {(r["dest"], tg) for r in all_reqs for tg in r["tags"]})
            if not link["failed"] and left:
                out.append(("C12", "C12/fullstack/pending-entry-left",
                            f"v{V}: entries of finished requests still held by the application 30 s after the last one ended: {left[:4]}", hist))
            if all_reqs:
                acc.hit("fullstack_c12_judged")
        faults = ws.line.faults_applied
        if faults["h2n"] and faults["n2h"]:
            acc.hit("fullstack_faults_both_directions")
        acc.nontrivial(("fullstack", V, seed, chunking, window, tuple(sorted((d, k, n) for d, m in faults.items() for k, n in m.items()))))
    finally:
        ws.uninstall_serial()
        try:
            await asyncio.wait_for(app.disconnect(), 30)
        except BaseException:  # noqa: BLE001
            pass
    return out


def run(acc, prop, V, seed, **kw):
    """Runs one soak on a fresh virtual-time loop; violations of `prop` go to `acc`."""
    from . import vloop

    res = []

    async def main(loop):
        res.extend(await soak(loop, acc, V, seed, **kw))

    acc.case()
    case = dict(part="fullstack", version=V, seed=seed, **kw)
    try:
        vloop.run(main)
    except vloop.Deadlock:
        acc.violation(f"{prop}/fullstack/loop-ran-dry", f"v{V}: the event loop ran dry with application calls pending", case)
        return
    for p, key, msg, hist in res:
        if p == "*":
            if prop == "C01":
                # a bring-up that fails on a clean line is the business of the properties about the layers above
                # (C09, C12, C13 report it); C01's own workload does not need the application
                acc.ev("fullstack_bring_up_failed")
                continue
            acc.violation(f"{prop}/{key}", msg, case, hist)
        elif p == prop:
            acc.violation(key, msg, case, hist)
        else:
            acc.ev("fullstack_other_property_rule_fired:" + key)


def shard_descs(tier, seed, nshards=2):
    """Descriptors of the full-stack shards a hosting check adds to its own."""
    per = 6 if tier == "quick" else 40
    return [{"part": "fullstack", "tier": tier, "seed": seed, "k": k, "n": nshards, "per_version": per} for k in range(nshards)]


def run_shard_part(acc, prop, desc):
    """All protocol versions x `per_version` seeds, rotating chunking / NCP window / fault rate."""
    i = 0
    for V in range(4, 15):
        for j in range(desc["per_version"]):
            i += 1
            if i % desc["n"] != desc["k"]:
                continue
            sd = desc["seed"] * 1000 + j
            run(acc, prop, V, sd, rounds=10 + (j % 3) * 6, rate=(0.04, 0.08, 0.15, 0.0)[(j + V) % 4],
                chunking=("whole", "byte", "coalesce", "split2")[(j + V // 2) % 4], window=1 + (j + V) % 3)
            acc.ev("fullstack_soaks_v%d" % V)
    acc.hit("fullstack_shards")
    return acc
