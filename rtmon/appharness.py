"""ControllerApplication + real EZSP + frame-level NCP model (DESIGN 0.2, 2.4).

The installed zigpy (2.2.0) no longer has `zigpy.util.Requests`, which this bellows still
uses.  `install_requests_shim()` injects the historical zigpy class (context manager:
`new(key)` -> object with a `.result` future; registers on __enter__, raising on a duplicate
key; unregisters on __exit__ and cancels a still-pending future).  It is harness code and part
of the trusted base of the checks that use the application.
"""
from __future__ import annotations

import asyncio

from . import ncpsim, ncpmodel


def install_requests_shim():
    import zigpy.exceptions
    import zigpy.util

    if hasattr(zigpy.util, "Requests"):
        return

    class Request:
        def __init__(self, pending, sequence):
            self._pending = pending
            self._result = asyncio.get_running_loop().create_future()
            self._sequence = sequence

        @property
        def result(self):
            return self._result

        @property
        def sequence(self):
            return self._sequence

        def __enter__(self):
            if self._sequence in self._pending:
                raise zigpy.exceptions.ControllerException(f"duplicate {self._sequence} TSN")
            self._pending[self._sequence] = self
            return self

        def __exit__(self, exc_type, exc_value, exc_traceback):
            self._pending.pop(self._sequence, None)
            if not self._result.done():
                self._result.cancel()
            return False

    class Requests(dict):
        def new(self, sequence):
            return Request(self, sequence)

    zigpy.util.Requests = Requests


def ezsp_of(app):
    """The EZSP object a ControllerApplication talks through, whatever the attribute holding it is called."""
    import bellows.ezsp as ezsp_mod

    return next((v for v in vars(app).values() if isinstance(v, ezsp_mod.EZSP)), None) or getattr(app, "_ezsp", None)


def preformed_network(net: ncpmodel.NetState, pan_id=0x1A2B, channel=15, stale_tables=0):
    """Puts a stored coordinator network into the NCP model (as left by an earlier run)."""
    import bellows.types as t

    p = t.EmberNetworkParameters()
    p.extendedPanId = t.ExtendedPanId.deserialize(bytes(range(0xA0, 0xA8)))[0]
    p.panId = t.EmberPanId(pan_id)
    p.radioTxPower = t.uint8_t(8)
    p.radioChannel = t.uint8_t(channel)
    p.joinMethod = t.EmberJoinMethod(0)
    p.nwkManagerId = t.EmberNodeId(0)
    p.nwkUpdateId = t.uint8_t(1)
    p.channels = t.Channels(0x07FFF800)
    net.network = {"params": p, "node_type": 1, "node_id": 0x0000}
    net.security = dict(bitmask=0x0084 | 0x0040 | 0x0100 | 0x0200, preconfigured=bytes(range(16)),
                        network_key=bytes(range(16, 32)), seq=3, tc_eui64=net.eui64())
    net.nwk_fc, net.aps_fc = 0x1000, 0x2000
    if stale_tables:
        # ... a network that had been in use: link keys and children of its own are still stored
        for i in range(stale_tables):
            net.key_table[i] = dict(eui64=bytes([0xB0 + i]) + bytes(range(7)), key=bytes([0x50 + i]) * 16, out_fc=7, in_fc=9)
            net.children[i] = dict(eui64=bytes([0xB8 + i]) + bytes(range(7)), nwk=0x4000 + i, type=4)


class AppStack:
    def __init__(self, loop, version, trace=None):
        self.loop, self.version = loop, version
        self.st = ncpsim.Stack(loop, version, trace)
        self.ncp = self.st.ncp
        self.gw = self.st.gw
        self.trace = self.st.trace
        self.net = ncpmodel.install_network(self.ncp)
        self.app = None

    async def connect(self, config_extra=None, start=True):
        install_requests_shim()
        import zigpy.config as zc

        import bellows.uart as uart
        import bellows.zigbee.application as A

        cfg = {zc.CONF_DEVICE: {zc.CONF_DEVICE_PATH: "/dev/ttyVERIF"}, "use_thread": False, zc.CONF_DATABASE: None}
        cfg.update(config_extra or {})
        self.app = A.ControllerApplication(cfg)
        st = self.st
        saved = uart.connect

        async def fake_connect(config, application, use_thread=True):
            st.ncp.deliver = application.frame_received
            return st.gw

        uart.connect = fake_connect
        try:
            await self.app.connect()
        finally:
            uart.connect = saved
        if start:
            await self.app.start_network()
        return self.app


    async def reconnect(self, version, preformed=True):
        """The SAME application object is disconnected and connected to another NCP (possibly of another
        protocol version: a re-flashed or exchanged stick), as zigpy does after a connection loss."""
        import bellows.uart as uart

        await self.app.disconnect()
        self.version = version
        self.st = ncpsim.Stack(self.loop, version, None)
        self.ncp, self.gw, self.trace = self.st.ncp, self.st.gw, self.st.trace
        self.net = ncpmodel.install_network(self.ncp)
        if preformed:
            preformed_network(self.net)
        st = self.st
        saved = uart.connect

        async def fake_connect(config, application, use_thread=True):
            st.ncp.deliver = application.frame_received
            return st.gw

        uart.connect = fake_connect
        try:
            await self.app.connect()
        finally:
            uart.connect = saved
        await self.app.start_network()
        return self.app


async def started_app(loop, version, acc, prop, preformed=True, **kw):
    """AppStack connected and started; a failing fault-free bring-up is a violation of `prop`."""
    ap = AppStack(loop, version)
    if preformed:
        preformed_network(ap.net)
    try:
        await ap.connect(**kw)
    except BaseException as e:  # noqa: BLE001
        import traceback

        reqs = [(r[1], r[5]) for r in ap.ncp.requests[-6:]]
        acc.violation(f"{prop}/setup/fault-free-application-start-failed",
                      f"v{version}: ControllerApplication.connect/start_network against a fault-free NCP model ended with "
                      f"{e!r}; last requests: {reqs}", {"version": version, "part": "bring-up"},
                      traceback.format_exc().splitlines()[-12:])
        raise ncpsim.BringUpFailed(repr(e)) from None
    return ap
