"""Generates values of the repository's field types by running each type's own deserialiser
over a biased byte source (0x00 / 0xFF / boundary / random; empty and maximal length prefixes;
undefined enum values).  The type-level (de)serialisers of zigpy are the trusted base; what the
checks using this module test is the *composition* (headers, IDs, order, schemas)."""
from __future__ import annotations

import random

MODES = ("zero", "ones", "small", "random", "mixed", "boundary")


def biased_bytes(rnd: random.Random, n: int, mode: str) -> bytes:
    if mode == "zero":
        return bytes(n)
    if mode == "ones":
        return b"\xff" * n
    if mode == "small":
        return bytes(rnd.choice((0, 0, 0, 1, 2, 3)) for _ in range(n))
    if mode == "random":
        return rnd.randbytes(n)
    if mode == "boundary":
        return bytes(rnd.choice((0x00, 0xFF, 0x7F, 0x80, 0x01, 0xFE)) for _ in range(n))
    out = bytearray()
    while len(out) < n:
        k = rnd.randrange(1, 9)
        out += biased_bytes(rnd, k, rnd.choice(("zero", "ones", "small", "random", "boundary")))
    return bytes(out[:n])


class CannotGenerate(Exception):
    pass


_greedy_cache: dict = {}

# Values a type decoded from bytes but cannot encode and decode back to themselves.  They are not used
# as test values (no expectation can be stated for them), but they are not swept under the carpet
# either: the checks that own the codec clause (C07) read this list and judge it.
ROUNDTRIP_FAILURES: list = []
ROUNDTRIP_COUNTS: dict = {}


def note_roundtrip_failure(T, v, enc, v2, rest):
    name = getattr(T, "__name__", repr(T))
    ROUNDTRIP_COUNTS[name] = ROUNDTRIP_COUNTS.get(name, 0) + 1
    if len(ROUNDTRIP_FAILURES) < 50:
        ROUNDTRIP_FAILURES.append({"type": name, "module": getattr(T, "__module__", "?"), "value": repr(v)[:300],
                                   "encoded": None if enc is None else bytes(enc).hex(), "decoded_again": repr(v2)[:300],
                                   "rest": rest.hex() if isinstance(rest, (bytes, bytearray)) else rest})


def gen_value(T, rnd: random.Random, mode: str | None = None):
    """-> (value, encoded bytes consumed by the deserialiser)."""
    modes = [mode] if mode else []
    modes += [m for m in ("mixed", "random", "boundary", "small", "zero") if m != mode]
    last = None
    for m in modes:
        size = 700
        buf = biased_bytes(rnd, size, m)
        if _greedy_cache.get(T):
            # unprefixed list: consumes whatever it is given
            item = _greedy_cache[T]
            buf = buf[: item * rnd.choice((0, 1, 2, 5))]
        try:
            v, rest = T.deserialize(buf)
        except Exception as e:  # noqa: BLE001
            last = e
            continue
        if not rest and len(buf) == size:
            # greedy type: find the item size, then retry with a short buffer
            for item in range(1, 40):
                try:
                    _, r2 = T.deserialize(bytes(item))
                    if not r2:
                        _greedy_cache[T] = item
                        break
                except Exception:  # noqa: BLE001
                    continue
            else:
                raise CannotGenerate(f"{T}: greedy type with no item size")
            return gen_value(T, rnd, m)
        # the value must be serialisable again and survive the type's own round trip (the type
        # level is the trusted base: values it cannot encode are not part of any claim)
        try:
            enc = T(v).serialize() if not hasattr(v, "serialize") else v.serialize()
            v2, r2 = T.deserialize(enc)
            if r2 or v2 != v:
                last = ValueError("type-level round trip differs")
                note_roundtrip_failure(T, v, enc, v2, r2)
                continue
        except Exception as e:  # noqa: BLE001
            last = e
            note_roundtrip_failure(T, v, None, None, repr(e))
            continue
        return v, enc
    raise CannotGenerate(f"{T}: {last!r}")


def gen_schema(schema, rnd, mode=None):
    """-> (values, encoded bytes).  dict schema -> list of values in declared order;
    struct-class schema -> the struct instance."""
    if isinstance(schema, dict):
        vals, enc = [], b""
        items = list(schema.items())
        for i, (k, T) in enumerate(items):
            v, b = gen_value(T, rnd, mode)
            if _greedy_cache.get(T) and i != len(items) - 1:
                # an unprefixed list that is not last: only the empty list is unambiguous
                v, b = T.deserialize(b"")[0], b""
            vals.append(v)
            enc += b
        return vals, enc
    v, b = gen_value(schema, rnd, mode)
    return v, b
