"""Small helpers to run the real AshProtocol against recorder stubs."""
from __future__ import annotations

from . import ashref


class Upper:
    """Upper layer handed to AshProtocol: records what is passed up."""

    def __init__(self, log=None):
        self.log = log if log is not None else []
        self.lost = []

    def connection_made(self, proto):
        pass

    def connection_lost(self, exc):
        self.lost.append(exc)
        self.log.append(("up_lost", repr(exc)))

    def eof_received(self):
        self.log.append(("up_eof",))

    def data_received(self, data):
        self.log.append(("up_data", bytes(data)))

    def reset_received(self, code):
        self.log.append(("up_reset", int(code)))

    def error_received(self, code):
        # the upper layer offers two entry points for a failure code (reset_received, error_received): through which
        # of them an ERROR frame's code is reported upward is not fixed by any property
        self.log.append(("up_reset", int(code)))


class SinkTransport:
    """Minimal transport: collects writes into the shared log."""

    def __init__(self, log, clock=None, on_write=None):
        self.log = log
        self.closing = False
        self.writes = []
        self.clock = clock
        self.on_write = on_write

    def write(self, data):
        data = bytes(data)
        self.writes.append(data)
        self.log.append(("wr", data, self.clock() if self.clock else None))
        if self.on_write is not None:
            self.on_write(data)

    def is_closing(self):
        return self.closing

    def close(self):
        self.closing = True


def decode_writes(log_slice):
    """Turn ('wr', bytes) entries into ('tx', kind, ackNum, cancel) using the reference codec."""
    out = []
    for e in log_slice:
        if e[0] != "wr":
            out.append(e)
            continue
        frames, rest = ashref.split_wire(e[1])
        if rest or not frames or any(f_[1] is None for f_ in frames):
            out.append(("tx_undecodable", e[1].hex()))
            continue
        # one write may carry several frames (answers batched per read): each is an answer of its own
        for cancel, fr, _ in frames:
            if fr.kind in ("ACK", "NAK"):
                # (kind, ackNum) is what the properties speak about; the CANCEL prefix and the
                # nRdy/reserved bits are reported but not part of any comparison
                out.append(("tx", fr.kind, fr.ack, cancel, fr.nrdy, fr.res))
            else:
                out.append(("tx_other", fr.kind, cancel))
    return out


def new_protocol(clock=None, on_write=None):
    import bellows.ash as ash

    log = []
    up = Upper(log)
    proto = ash.AshProtocol(up)
    tr = SinkTransport(log, clock, on_write)
    proto.connection_made(tr)
    return proto, up, tr, log
