"""Logging as a workload dimension.

Production deployments run bellows with DEBUG logging switched on as often as not, and a
log statement is code: it can evaluate reprs, re-parse a frame, or (as one seeded change
showed) pick a different value to put on the wire.  Every shard therefore runs in one of two
modes, chosen by its descriptor:

  desc["debuglog"] falsy  -> logging disabled altogether (fast path, isEnabledFor() False)
  desc["loglevel"] == "warning" (and debuglog falsy)
                          -> the library default: loggers at WARNING, records formatted by the same sink
  desc["debuglog"] truthy -> the `bellows` and `zigpy` loggers at DEBUG with a handler that
                             *formats* every record (so lazy %-arguments are evaluated) and
                             throws the text away; formatting errors are counted.

The runner marks every third shard that does not say otherwise (see runner.run_check).
"""
from __future__ import annotations

import logging


class FormatSink(logging.Handler):
    def __init__(self):
        super().__init__(logging.DEBUG)
        self.records = 0
        self.format_errors = []

    def emit(self, record):
        self.records += 1
        try:
            record.getMessage()
            if record.exc_info:
                logging.Formatter().formatException(record.exc_info)
        except Exception as e:  # noqa: BLE001
            if len(self.format_errors) < 5:
                self.format_errors.append(f"{record.name}:{record.lineno} {e!r}")


SINK = None


def apply(desc) -> bool:
    """Returns True when this shard runs with DEBUG logging on."""
    global SINK
    on = bool(desc.get("debuglog")) if isinstance(desc, dict) else bool(desc)
    level = logging.DEBUG
    if not on and isinstance(desc, dict) and desc.get("loglevel") == "warning":
        on, level = True, logging.WARNING
    if not on:
        logging.disable(logging.CRITICAL)
        return False
    logging.disable(logging.NOTSET)
    logging.getLogger().setLevel(logging.CRITICAL)
    if SINK is None:
        SINK = FormatSink()
    for name in ("bellows", "zigpy"):
        lg = logging.getLogger(name)
        lg.setLevel(level)
        lg.propagate = False
        if SINK not in lg.handlers:
            lg.addHandler(SINK)
    return level == logging.DEBUG


def report(acc) -> None:
    """Adds what the sink saw to the shard's accumulator."""
    if SINK is None:
        return
    lvl = logging.getLogger("bellows").level
    acc.ev("debug_log_records_formatted" if lvl == logging.DEBUG else "warning_log_records_formatted", SINK.records)
    acc.hit("debuglog_shards" if lvl == logging.DEBUG else "warninglog_shards")
    for e in SINK.format_errors:
        acc.notes.append("log record could not be formatted: " + e)
