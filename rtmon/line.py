"""Faulty FIFO serial line between the host transport and an NCP model (DESIGN 2.3).

Two byte pipes, strictly FIFO per direction.  Faults are decided per *frame* (one write unit
ending in FLAG) in global emission order from a fault vector over
    "ok" deliver | "drop" | "corrupt" (detectable) | "dup" (back-to-back) | "stall" (hold this
    direction for STALL seconds, head-of-line blocking)
then, when the vector is exhausted, from an optional seeded fault rate, else delivered.
No re-ordering and no unbounded delay are ever produced.
"""
from __future__ import annotations

import random

from . import ashref as R

STALL = 3.3  # > T_RX_ACK_MAX
LATENCY = 0.001


class Line:
    def __init__(self, loop, trace, vector=(), rate=0.0, seed=0, chunking="whole", stall=STALL):
        self.loop = loop
        self.trace = trace
        self.vector = list(vector)
        self.rate = rate
        self.rnd = random.Random(seed)
        self.chunking = chunking
        self.stall = stall
        self.n = 0  # frames seen so far (both directions), once armed
        self.armed = False
        self.free_at = {"h2n": 0.0, "n2h": 0.0}
        self.sink = {"h2n": None, "n2h": None}  # callables taking bytes
        self.faults_applied = {"h2n": {}, "n2h": {}}
        self.closed = False
        self.on_frame = None  # harness hook: called with the index of each frame once armed
        self.on_protocol_error = None  # set by the wire stack: models the transport's _fatal_error()
        self.dup_in_one_read = False  # "dup" faults: both copies in a single read instead of two
        # per-direction scripts, consumed (while armed) before the global vector: a run of faults that hits one
        # direction only, e.g. every acknowledgement lost for a while
        self.dir_vector = {"h2n": [], "n2h": []}
        self._co = {"h2n": {"data": b"", "when": None}, "n2h": {"data": b"", "when": None}}

    # -- fault decision -------------------------------------------------------------------
    def _fault(self, direction=None):
        if not self.armed:
            return "ok"
        dv = self.dir_vector.get(direction)
        if dv:
            self.n += 1
            if self.on_frame is not None:
                self.on_frame(self.n - 1)
            return dv.pop(0)
        i = self.n
        self.n += 1
        if self.on_frame is not None:
            self.on_frame(i)
        if i < len(self.vector):
            return self.vector[i]
        if self.rate and self.rnd.random() < self.rate:
            return self.rnd.choice(["drop", "corrupt", "dup", "stall", "drop", "corrupt"])
        return "ok"

    def _corrupt(self, data: bytes) -> bytes:
        prefix = b""
        body = data
        if body[:1] == bytes([R.CAN]):
            prefix, body = body[:1], body[1:]
        body = body[:-1]  # FLAG
        try:
            raw = bytearray(R.unstuff(body))
        except R.Bad:
            raw = bytearray(body)
        if not raw:
            return data
        mode = self.rnd.randrange(3)
        if mode == 2:
            # substitute one byte on the wire by SUB (what a UART does on a framing error)
            w = bytearray(R.stuff(bytes(raw)))
            w[self.rnd.randrange(len(w))] = R.SUB
            return prefix + bytes(w) + bytes([R.FLAG])
        for _ in range(1 + mode):
            p = self.rnd.randrange(len(raw) * 8)
            raw[p // 8] ^= 1 << (p % 8)
        return prefix + R.stuff(bytes(raw)) + bytes([R.FLAG])

    # -- sending ------------------------------------------------------------------------
    def send(self, direction: str, data: bytes):
        """Called with one write unit."""
        if self.closed:
            return
        data = bytes(data)
        fault = self._fault(direction)
        frames, _ = R.split_wire(data)
        fr = frames[0][1] if frames else None
        cancel = frames[0][0] if frames else False
        self.trace.append(("line", self.loop.time(), direction, fr.sig() if fr else None, fault, cancel))
        if fault != "ok":
            self.faults_applied[direction][fault] = self.faults_applied[direction].get(fault, 0) + 1
        if fault == "drop":
            return
        if fault == "corrupt":
            data = self._corrupt(data)
        now = self.loop.time()
        when = max(now + LATENCY, self.free_at[direction] + 1e-6)
        if fault == "stall":
            when += self.stall
        # "dup": the copy arrives in a read of its own; "dup1": both copies arrive in one read
        if fault == "dup" and self.dup_in_one_read:
            fault_units = [data + data]
        else:
            fault_units = [data, data] if fault == "dup" else [data + data] if fault == "dup1" else [data]
        units = fault_units
        if self.chunking == "coalesce" and fault != "stall":
            # what a serial driver does under load: everything that arrived within a short window
            # is handed over in ONE read (FIFO order kept)
            buf = self._co[direction]
            buf["data"] += b"".join(units)
            if buf["when"] is None:
                buf["when"] = when + 0.002
                self.loop.io_at(buf["when"], self._flush, direction)
            # (a stalled frame is not coalesced: it is handed over on its own, after whatever is
            # buffered before it and before whatever comes after it - FIFO with a bounded stall)
            self.free_at[direction] = max(self.free_at[direction], buf["when"])
            return
        for u in units:
            chunks = [u] if self.chunking == "whole" else [u[i:i + 1] for i in range(len(u))]
            if self.chunking == "split2" and len(u) > 1:
                k = self.rnd.randrange(1, len(u))
                chunks = [u[:k], u[k:]]
            for c in chunks:
                self.loop.io_at(when, self._deliver, direction, c)
                when += 1e-6
        self.free_at[direction] = when

    def _flush(self, direction):
        buf = self._co[direction]
        if buf["when"] is not None and buf["when"] > self.loop.time() + 1e-9:
            # a stall moved the hand-over time: try again then
            self.loop.io_at(buf["when"], self._flush, direction)
            return
        data, buf["data"], buf["when"] = buf["data"], b"", None
        if data:
            self._deliver(direction, data)

    def _deliver(self, direction, chunk):
        if self.closed:
            return
        if direction == "h2n" or self.on_protocol_error is None:
            self.sink[direction](chunk)
            return
        try:
            self.sink[direction](chunk)
        except (SystemExit, KeyboardInterrupt):
            raise
        except BaseException as exc:  # noqa: BLE001
            # what every asyncio transport does when protocol.data_received() raises:
            # _fatal_error() -> the connection is force-closed and connection_lost(exc) follows
            self.trace.append(("protocol_raised", self.loop.time(), repr(exc)[:200]))
            self.on_protocol_error(exc)


class HostTransport:
    """The asyncio transport surface AshProtocol uses, writing into the line."""

    def __init__(self, line: Line):
        self.line = line
        self._closing = False
        self.protocol = None

    def write(self, data):
        self.line.send("h2n", data)

    def is_closing(self):
        return self._closing

    def close(self):
        if self._closing:
            return
        self._closing = True
        self.line.sink["n2h"] = lambda chunk: None  # a closed port delivers nothing
        if self.protocol is not None:
            self.line.loop.call_soon(self.protocol.connection_lost, None)
