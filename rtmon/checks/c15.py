"""C15 - the host's view of the multicast table matches the NCP and never leaks slots.

Real bellows.multicast.Multicast + real EZSP (frame mode) + an NCP multicast-table model.
Every operation string over {subscribe g, unsubscribe g} up to the tier's length, every table
write answered from {success, rejection status, timeout (not applied)}, from every initial
table content in which each group appears at most once, table sizes 0..4.  After each string
(every prefix is itself an enumerated string) a probe phase establishes, purely from return
statuses and table writes, what the host believes: subscribed set, free-slot count, index
ownership.
"""
from __future__ import annotations

import asyncio
import itertools
import logging
import types

from .. import vloop, ncpsim, ncpmodel
from ..runner import Acc
from .. import logmode
from ..contracts import install_status_contract

PROPERTY = "C15"
LEVEL = "fault_enumeration"
RULE = (
    "A case = (protocol version, table size 0..4, initial NCP table content with each group at most "
    "once, groups the coordinator's endpoints are members of at start-up - one endpoint, or several with a "
    "group listed on more than one of them -, operation string, answer to "
    "each table write).  All operation strings up to the tier's length over 3 groups x {subscribe, "
    "unsubscribe} are enumerated; for each step that causes a table write the three answers {success, "
    "rejection, timeout} are branched.  Non-trivial = at least one table write happened in the "
    "operation string; distinct = distinct (version, size, initial table, start-up groups, effective "
    "operation/answer string)."
)
ASSUMPTIONS = [
    "NCP model: a table write answered 'timeout' is not applied and never answered; a rejected write is "
    "not applied; reads reflect the table",
    "what the host believes is observed only through return statuses and table writes (probe phase: "
    "subscribe to every known group, then to fresh groups until refusal)",
    "Multicast is constructed as Multicast(ezsp) and started with startup(coordinator) as in the pinned tree",
]
EXHAUSTIVE = {
    "quick": "operation strings up to length 3 (sizes 0..2) / 2 (sizes 3..4) over 3 groups, all write answers, all initial tables of sizes 0..3 (size 4: every third one, rotating with the seed)",
    "thorough": "operation strings up to length 4 (sizes 0..2) / 3 (sizes 3..4) over 3 groups, all write answers, all initial tables",
}
REACH = {t: ["sub_rejected", "sub_timeout", "sub_ok", "unsub_rejected", "unsub_timeout", "unsub_ok",
             "full_table", "size_0", "already_subscribed", "startup_subscribed", "probe_free_count_checked",
             "versions_3", "startup_several_endpoints", "startup_group_on_two_endpoints", "rejection_status_family_swept",
             "overlapping_calls", "startup_again_on_same_object", "through_coordinator_endpoint", "group_id_zero", "initial_entry_on_endpoint_242"] for t in ("quick", "thorough")}
SHARD_TIMEOUT = {"quick": 900, "thorough": 3600}

G_DEFAULT = [0x1001, 0x1002, 0x1003]
G = list(G_DEFAULT)
FOREIGN = [0x2001, 0x2002, 0x2003, 0x2004]
FRESH = [0x3001 + i for i in range(8)]
OPS = [(o, g) for o in ("sub", "unsub") for g in G]
IN_USE_EPS = (1, 242, 1, 2, 255, 1, 0x7F)


def initial_tables(n):
    """All contents of n slots over {empty, g1, g2, g3, a foreign group}, each group at most once."""
    out = []
    for combo in itertools.product([None, 0, 1, 2, "f"], repeat=n):
        gs = [c for c in combo if isinstance(c, int)]
        if len(gs) != len(set(gs)):
            continue
        ents = []
        fi = 0
        for c in combo:
            if c is None:
                ents.append((0, 0, 0))
            elif c == "f":
                ents.append((FOREIGN[fi], 1, 0))
                fi += 1
            else:
                ents.append((G[c], 1, 0))
        out.append(ents)
    return out


def shards(tier, seed):
    out = []
    versions = [4, 8, 14] if tier == "quick" else [4, 5, 8, 11, 13, 14]
    for V in versions:
        for n in range(0, 5):
            tabs = initial_tables(n)
            depth = (3 if n <= 2 else 2) if tier == "quick" else (4 if n <= 2 else 3)
            chunk = 1 if n < 2 else ((4 if n == 2 else 6 if n == 3 else 8) if tier == "quick" else 12)
            if n == 2 and tier == "thorough":
                chunk = 6
            for c in range(chunk):
                out.append({"version": V, "n": n, "depth": depth, "chunk": c, "chunks": chunk, "seed": seed,
                            "ntabs": len(tabs), "sample": 3 if (tier == "quick" and n == 4) else 0,
                            # boundary group ids (0x0000 is what an unused table entry carries) on every other chunk
                            "groups": [0x0000, 0x1002, 0xFFFF] if (c + n + V) % 2 else None})
    out.sort(key=lambda d: -d["n"])
    for d in out:
        d["debuglog"] = d["n"] <= 2  # DEBUG logging on the small tables (the big ones are the critical path)
    for V in versions:
        out.append({"version": V, "part": "endpoint", "n": -1, "seed": seed, "deep": tier == "thorough", "debuglog": V == versions[0]})
    return out


def CORESIDENT(shards):
    """Pairs of small shards (table size 2) of different protocol versions for one process."""
    byv = {}
    for i, d in enumerate(shards):
        if d["n"] == 2:
            byv.setdefault(d["version"], i)
    vs = sorted(byv)
    return [[byv[vs[-1]], byv[vs[0]]], [byv[vs[0]], byv[vs[-1]]]] if len(vs) >= 2 else []


def is_ok(st):
    import bellows.types as t

    try:
        return t.sl_Status.from_ember_status(st) == t.sl_Status.OK
    except Exception:  # noqa: BLE001
        return False


def run_shard(desc) -> Acc:
    import bellows.multicast as mcast

    global G, OPS
    G = list(desc.get("groups") or G_DEFAULT)
    OPS = [(o, g) for o in ("sub", "unsub") for g in G]
    if desc.get("part") == "endpoint":
        return run_endpoint_shard(desc)
    logmode.apply(desc)
    acc = Acc()
    install_status_contract(acc)
    V, n, depth = desc["version"], desc["n"], desc["depth"]
    if 0x0000 in G:
        acc.hit("group_id_zero")
    tabs = initial_tables(n)[desc["chunk"]::desc["chunks"]]
    if desc.get("sample"):
        tabs = tabs[desc["seed"] % desc["sample"]::desc["sample"]]
    # an entry is in use when its endpoint is not 0: the endpoint number itself (1, another application
    # endpoint, the Green Power endpoint 242, 255) and the network index are data the NCP reports
    tabs = [[(e[0], IN_USE_EPS[(ti + k) % len(IN_USE_EPS)], (0, 0, 1, 255)[(ti + 2 * k) % 4]) if e[1] else e for k, e in enumerate(tb)]
            for ti, tb in enumerate(tabs)]
    if any(e[1] == 242 for tb in tabs for e in tb):
        acc.hit("initial_entry_on_endpoint_242")
    acc.reach["version:%d" % V] += 1

    async def main(loop):
        st = await ncpsim.started(loop, V, acc, "C15")
        ez = st.ezsp
        ncp = st.ncp
        seen = set()

        async def run(ents, startup_groups, seq):
            """Executes start-up, the operation string and the probe phase.  Returns the list of
            booleans 'step caused a table write'."""
            table = ncpmodel.MulticastTable(ents)
            ncpmodel.install_multicast(ncp, table)
            case = {"version": V, "table": [list(e) for e in ents], "startup_groups": [list(x) if isinstance(x, (list, tuple)) else x for x in startup_groups],
                    "ops": [list(s) for s in seq]}
            hist = []
            bad = []

            def viol(key, msg):
                bad.append((key, msg))

            mc = mcast.Multicast(ez)
            # startup_groups: the groups of one coordinator endpoint, or a list of such lists (several
            # endpoints, a group may be listed on more than one of them)
            eps = startup_groups if startup_groups and isinstance(startup_groups[0], (list, tuple)) else [startup_groups]
            startup_groups = sorted({g for e_ in eps for g in e_})
            coord = types.SimpleNamespace(endpoints={0: types.SimpleNamespace(member_of={G[2]: None})})
            for k_, e_ in enumerate(eps):
                coord.endpoints[k_ + 1] = types.SimpleNamespace(member_of={g: None for g in e_})
            if len(eps) > 1:
                acc.hit("startup_several_endpoints")
                if sum(len(e_) for e_ in eps) > len(startup_groups):
                    acc.hit("startup_group_on_two_endpoints")
            try:
                await mc.startup(coord)
            except BaseException as ex:  # noqa: BLE001
                viol("C15/startup/raised", f"startup raised {ex!r}")
                acc.violation(bad[0][0], bad[0][1], case, hist)
                return []
            hist.append(("startup", list(startup_groups), "table", [tuple(e) for e in table.entries]))
            for g in startup_groups:
                if g in table.subscribed():
                    acc.hit("startup_subscribed")
            wrote = []
            for (op, g, ans) in seq:
                if op == "par":
                    # two calls overlapping in time (asyncio.gather); judged by the probe phase below
                    table.answers = []
                    w0 = len(table.writes)
                    res = await asyncio.gather(*[(mc.subscribe(g_) if o_ == "sub" else mc.unsubscribe(g_)) for (o_, g_) in g],
                                               return_exceptions=True)
                    ws = table.writes[w0:]
                    wrote.append(bool(ws))
                    hist.append(("par", [(o_, hex(g_)) for (o_, g_) in g], "ret", [repr(r_) for r_ in res], "writes", ws,
                                 "table", [tuple(e) for e in table.entries]))
                    for r_ in res:
                        if isinstance(r_, BaseException):
                            viol("C15/op/unexpected-exception", f"overlapping calls {g}: {r_!r}")
                    acc.hit("overlapping_calls")
                    if bad:
                        break
                    continue
                if op == "restart":
                    # the NCP lost / changed table entries behind the host's back (its table lives in
                    # RAM: an NCP reset clears it), then start-up runs again on the same object
                    if g == "cleared":
                        table.entries = [[0, 0, 0] for _ in table.entries]
                    elif g == "first_lost" and table.entries:
                        table.entries[0] = [0, 0, 0]
                    table.answers = []
                    w0 = len(table.writes)
                    try:
                        await mc.startup(coord)
                    except BaseException as ex:  # noqa: BLE001
                        viol("C15/startup/raised", f"second start-up raised {ex!r}")
                        break
                    wrote.append(bool(table.writes[w0:]))
                    hist.append(("restart", g, "writes", table.writes[w0:], "table", [tuple(e) for e in table.entries]))
                    acc.hit("startup_again_on_same_object")
                    continue
                before = [list(e) for e in table.entries]
                sub_before = g in table.subscribed()
                free_before = len(table.free())
                table.answers = [ans]
                w0 = len(table.writes)
                exc = None
                ret = None
                try:
                    ret = await (mc.subscribe(g) if op == "sub" else mc.unsubscribe(g))
                except asyncio.TimeoutError as ex:
                    exc = ex
                except BaseException as ex:  # noqa: BLE001
                    exc = ex
                    viol("C15/op/unexpected-exception", f"{op}({g:#x}) raised {ex!r}")
                ws = table.writes[w0:]
                wrote.append(bool(ws))
                hist.append((op, hex(g), ans if ws else "-", "ret", repr(ret), "exc", type(exc).__name__ if exc else None,
                             "writes", ws, "table", [tuple(e) for e in table.entries]))
                if len(ws) > 1:
                    viol("C15/op/more-than-one-write", f"{op}({g:#x}) wrote {ws}")
                if op == "sub":
                    if sub_before:
                        acc.hit("already_subscribed")
                        if ws or exc or not is_ok(ret):
                            viol("C15/subscribe/already-subscribed-not-a-noop",
                                 f"subscribe({g:#x}) of a group programmed in the NCP table wrote {ws}, returned {ret!r}")
                    elif free_before == 0 and not ws:
                        acc.hit("full_table")
                        if exc or is_ok(ret):
                            viol("C15/subscribe/no-free-index-not-reported", f"subscribe({g:#x}) with a full table returned {ret!r}")
                    elif ws:
                        i, mid, epn, a = ws[0]
                        if mid != g or epn == 0:
                            viol("C15/subscribe/wrong-entry-written", f"subscribe({g:#x}) wrote {ws[0]}")
                        if i >= len(before) or before[i][1] != 0:
                            viol("C15/index/write-to-used-index", f"subscribe({g:#x}) wrote to index {i} which holds {before[i] if i < len(before) else None}")
                        if a == "ok":
                            acc.hit("sub_ok")
                            if exc or not is_ok(ret):
                                viol("C15/subscribe/success-not-reported", f"accepted write, returned {ret!r} {exc!r}")
                        elif a == "timeout":
                            acc.hit("sub_timeout")
                            if not isinstance(exc, asyncio.TimeoutError):
                                viol("C15/subscribe/timeout-not-propagated", f"unanswered write, returned {ret!r} {exc!r}")
                        else:
                            acc.hit("sub_rejected")
                            if exc or is_ok(ret):
                                viol("C15/subscribe/rejection-not-reported", f"rejected write, returned {ret!r} {exc!r}")
                else:
                    if not sub_before:
                        if ws or is_ok(ret):
                            viol("C15/unsubscribe/not-subscribed-not-refused",
                                 f"unsubscribe({g:#x}) of a group absent from the NCP table wrote {ws}, returned {ret!r}")
                    elif ws:
                        i, mid, epn, a = ws[0]
                        # the entry that held the group is written with endpoint 0 ("not programmed"); what group id the
                        # cleared entry carries is open
                        if epn != 0 or before[i][0] != g:
                            viol("C15/unsubscribe/wrong-entry-written", f"unsubscribe({g:#x}) wrote {ws[0]} over {before[i]}")
                        if a == "ok":
                            acc.hit("unsub_ok")
                            if exc or not is_ok(ret):
                                viol("C15/unsubscribe/success-not-reported", f"accepted write, returned {ret!r} {exc!r}")
                        elif a == "timeout":
                            acc.hit("unsub_timeout")
                        else:
                            acc.hit("unsub_rejected")
                            if exc or is_ok(ret):
                                viol("C15/unsubscribe/rejection-not-reported", f"rejected write, returned {ret!r}")
                    else:
                        viol("C15/unsubscribe/no-write", f"unsubscribe({g:#x}) of a subscribed group wrote nothing, returned {ret!r}")
                if bad:
                    break
            # ---- probe phase: what does the host believe?
            if not bad:
                table.answers = []
                known = sorted(set(G) | {e[0] for e in table.entries if e[1] != 0})
                for g in known + FRESH[: len(table.entries) + 1]:
                    sub_now = g in table.subscribed()
                    free_now = table.free()
                    w0 = len(table.writes)
                    try:
                        ret = await mc.subscribe(g)
                    except BaseException as ex:  # noqa: BLE001
                        viol("C15/probe/raised", f"probe subscribe({g:#x}) raised {ex!r}")
                        break
                    ws = table.writes[w0:]
                    hist.append(("probe-sub", hex(g), "ret", repr(ret), "writes", ws))
                    if sub_now:
                        if ws or not is_ok(ret):
                            viol("C15/mirror/ncp-has-group-host-does-not",
                                 f"group {g:#x} is programmed in the NCP table but the host does not report it as "
                                 f"subscribed (probe subscribe wrote {ws}, returned {ret!r})")
                            break
                    elif not ws and is_ok(ret):
                        viol("C15/mirror/host-reports-group-ncp-lacks",
                             f"host reports {g:#x} as subscribed (subscribe returned OK without a write) but the NCP table "
                             f"{[tuple(e) for e in table.entries]} does not contain it")
                        break
                    elif free_now:
                        if not ws:
                            viol("C15/slots/free-index-leaked",
                                 f"NCP table has {len(free_now)} unused index(es) {free_now} but subscribe({g:#x}) was refused "
                                 f"({ret!r}): the host lost track of a free index")
                            break
                        i = ws[0][0]
                        if i not in free_now:
                            viol("C15/index/write-to-used-index", f"probe subscribe({g:#x}) wrote to index {i}, free were {free_now}")
                            break
                        if not is_ok(ret):
                            viol("C15/probe/success-not-reported", f"probe subscribe({g:#x}) accepted but returned {ret!r}")
                            break
                    else:
                        if ws:
                            viol("C15/index/write-with-full-table", f"NCP table is full but subscribe({g:#x}) wrote {ws}")
                            break
                        acc.hit("probe_free_count_checked")
                gs = [e[0] for e in table.entries if e[1] != 0]
                if len(gs) != len(set(gs)):
                    viol("C15/index/group-in-two-slots", f"NCP table holds a group twice: {[tuple(e) for e in table.entries]}")
            for key, msg in bad[:2]:
                acc.violation(key, msg, case, hist)
            acc.case()
            eff = tuple((o, repr(g), a if w else None) for (o, g, a), w in zip(seq, wrote))
            if any(wrote):
                acc.nontrivial((V, n, tuple(map(tuple, ents)), repr(case["startup_groups"]), eff))
            if n == 0:
                acc.hit("size_0")
            if len(acc.samples) < 2 and len(seq) == depth and any(a != "ok" for (_, _, a), w in zip(seq, wrote) if w):
                acc.sample({"case": case, "history": [repr(h)[:260] for h in hist]})
            return wrote

        rej_kinds = ["fatal", "invalid_index", "undefined"]

        async def explore(ents, sg, prefix, depth=depth):
            for (op, g) in OPS:
                seq_ok = prefix + [(op, g, "ok")]
                wrote = await run(ents, sg, seq_ok)
                if len(wrote) < len(seq_ok):
                    continue
                if len(seq_ok) < depth:
                    await explore(ents, sg, seq_ok, depth)
                if wrote[-1]:
                    rk = rej_kinds[(len(prefix) + G.index(g) + len(ents)) % 3]
                    for ans in ("reject:" + rk, "timeout"):
                        seq2 = prefix + [(op, g, ans)]
                        w2 = await run(ents, sg, seq2)
                        if len(w2) == len(seq2) and len(seq2) < depth:
                            await explore(ents, sg, seq2, depth)

        if n == 2 and desc["chunk"] == 0:
            # the reason given for a rejection must not matter: every status code of the reply's family
            import bellows.types as bt_

            T_ = ncp.COMMANDS["setMulticastTableEntry"][2]["status"]
            fam = (sorted(int(m) for m in bt_.sl_Status if int(m)) + [0x7777, 0xFFFFFFFF]) if T_.__name__ == "sl_Status" else list(range(1, 256))
            ents0 = [(0, 0, 0), (G[1], 1, 0)]
            for code in fam:
                await run(ents0, [], [("sub", G[0], "reject:#%d" % code), ("sub", G[2], "ok")])
                await run(ents0, [], [("unsub", G[1], "reject:#%d" % code), ("sub", G[0], "ok")])
            acc.hit("rejection_status_family_swept")
        if n in (2, 3) and desc["chunk"] == 0:
            # overlapping calls, and start-up again on the same object after the NCP changed its table
            some = [t_ for t_ in initial_tables(n)][desc["seed"] % 3:: max(1, len(initial_tables(n)) // (6 if desc["depth"] <= 3 and n == 3 else 10))]
            for ents in some:
                for (o1, g1) in OPS:
                    for (o2, g2) in OPS:
                        if g1 == g2:
                            # overlapping calls for ONE group are outside the property (it speaks of
                            # sequences of calls; only the index invariant is unconditional)
                            continue
                        await run(ents, [], [("par", [(o1, g1), (o2, g2)], "ok")])
                        if (o1, o2) == ("sub", "sub"):
                            await run(ents, [], [("par", [(o1, g1), (o2, g2)], "ok"), ("unsub", g1, "ok")])
                            g3 = [g_ for g_ in G if g_ not in (g1, g2)][0]
                            await run(ents, [], [("par", [(o1, g1), (o2, g2), ("sub", g3)], "ok")])
                for how in (("cleared", "first_lost", "same") if n == 2 else ("cleared",)):
                    for sg in ([], [[G[0]], [G[0], G[1]]]):
                        await run(ents, sg, [("restart", how, "ok")])
                        for (o1, g1) in OPS:
                            await run(ents, sg, [(o1, g1, "ok"), ("restart", how, "ok")])
                            await run(ents, sg, [(o1, g1, "ok"), ("restart", how, "ok"), (o1, g1, "ok")])
        for ents in tabs:
            await run(ents, [], [])
            await explore(ents, [], [])
            if n >= 1:
                # the coordinator endpoint is a member of g1 (subscribed again at start-up)
                await run(ents, [G[0]], [])
                if depth >= 2 and n <= 2:
                    await explore(ents, [G[0]], [], depth - 1)
                # several coordinator endpoints, groups listed on more than one of them
                for spec in ([[G[0]], [G[0]]], [[G[0], G[1]], [G[1]]], [[G[0]], [G[1]], [G[0], G[2]]]):
                    await run(ents, spec, [])
                    for op1 in OPS:
                        await run(ents, spec, [op1 + ("ok",)])
                if depth >= 2 and n == 2:
                    await explore(ents, [[G[0]], [G[0]]], [], depth - 1)

    try:
        vloop.run(main)
    except ncpsim.BringUpFailed:
        pass
    return acc


def run_endpoint_shard(desc) -> Acc:
    """The same invariants with group changes made the way zigpy makes them: through the coordinator's
    own endpoint (EZSPEndpoint.add_to_group / remove_from_group) of a started ControllerApplication."""
    from .. import appharness

    logmode.apply(desc)
    acc = Acc()
    install_status_contract(acc)
    V = desc["version"]
    acc.reach["version:%d" % V] += 1

    async def one(loop, seq):
        ap = await appharness.started_app(loop, V, acc, "C15")
        app, ncp = ap.app, ap.ncp
        table = ncp.state["multicast"]
        mc = app.multicast
        ep = next((e_ for i_, e_ in sorted(app._device.endpoints.items()) if i_ != 0 and hasattr(e_, "add_to_group")), None)
        case = {"version": V, "via": "coordinator endpoint", "ops": [list(x) for x in seq]}
        acc.case()
        if ep is None:
            acc.notes.append("coordinator endpoint with add_to_group not found: endpoint path skipped")
            return
        hist = []
        for (op, g, ans) in seq:
            free_before = len(table.free())
            table.answers = [ans]
            w0 = len(table.writes)
            exc = None
            try:
                await (ep.add_to_group(g) if op == "add" else ep.remove_from_group(g))
            except BaseException as ex:  # noqa: BLE001
                exc = ex
            ws = table.writes[w0:]
            hist.append((op, hex(g), ans if ws else "-", type(exc).__name__ if exc else None, ws))
            if ws and ans == "timeout" and not isinstance(exc, asyncio.TimeoutError):
                acc.violation("C15/subscribe/timeout-not-propagated", f"{op}({g:#x}) with an unanswered table write ended with {exc!r}", case, hist)
                return
            if ws:
                acc.hit("endpoint_" + op + "_" + ans.split(":")[0])
        # probe: the host's idea of the table against the NCP's
        table.answers = []
        for g in sorted({e[0] for e in table.entries if e[1] != 0}):
            w0 = len(table.writes)
            st_ = await mc.subscribe(g)
            if table.writes[w0:] or not is_ok(st_):
                acc.violation("C15/mirror/ncp-has-group-host-does-not", f"group {g:#x} is programmed in the NCP table but the host does not treat it as subscribed", case, hist)
                return
        free_now = table.free()
        got = 0
        for g in FRESH[: len(table.entries) + 1]:
            w0 = len(table.writes)
            st_ = await mc.subscribe(g)
            if table.writes[w0:] and is_ok(st_):
                got += 1
            elif not table.writes[w0:] and is_ok(st_):
                acc.violation("C15/mirror/host-reports-group-ncp-lacks", f"host treats {g:#x} as subscribed, the NCP table lacks it", case, hist)
                return
            else:
                break
        if got != len(free_now):
            acc.violation("C15/slots/free-index-leaked", f"the NCP table had {len(free_now)} unused entries {free_now} after {seq}, but only {got} further "
                          "groups could be subscribed: the host lost track of an index", case, hist)
        else:
            acc.hit("probe_free_count_checked")
        acc.hit("through_coordinator_endpoint")
        acc.nontrivial((V, "endpoint", tuple(seq)))
        if len(acc.samples) < 1:
            acc.sample({"case": case, "history": [repr(h) for h in hist]})

    ops = [("add", G[0]), ("add", G[1]), ("remove", G[0])]
    answers = ["ok", "reject:fatal", "timeout"]
    seqs = [[(o, g, a)] for (o, g) in ops for a in answers]
    seqs += [[(o1, g1, a1), (o2, g2, a2)] for (o1, g1) in ops for a1 in answers for (o2, g2) in ops for a2 in answers]
    if desc.get("deep"):
        seqs += [[("add", G[0], "timeout"), ("add", G[1], "timeout"), ("add", G[2], a)] for a in answers]
    for seq in seqs:
        async def main(loop, seq=seq):
            await one(loop, seq)
        try:
            vloop.run(main)
        except ncpsim.BringUpFailed:
            break
        except vloop.Deadlock:
            acc.violation("C15/hang", f"loop ran dry during {seq}", {"version": V, "ops": [list(x) for x in seq]})
    return acc


def post_merge(reach, tier, events=None):
    vs = [k for k in reach if k.startswith("version:")]
    if len(vs) >= 3:
        reach["versions_3"] = len(vs)
    for k in vs:
        del reach[k]


def replay(case) -> Acc:
    import bellows.multicast as mcast  # noqa: F401

    print("replay: re-running the shard slice containing the case's initial table")
    V = case["version"]
    n = len(case["table"])
    acc = run_shard({"version": V, "n": n, "depth": max(1, len(case["ops"])), "chunk": 0, "chunks": 1, "seed": 0})
    acc.violations = [v for v in acc.violations if v["case"].get("table") == case["table"]][:3]
    return acc
