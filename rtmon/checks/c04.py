"""C04 - the host receiver never hands a frame up twice or out of order, whatever arrives.

Oracle: the receive rule of rtmon.ashref.RefDecoder.receive, driven with well-formed frames
only (encoded by the reference codec).  After *each* input frame the events the real
AshProtocol produced during that one data_received() call (upward calls, bytes written) are
compared with what the rule prescribes.
"""
from __future__ import annotations

import asyncio
import itertools
import random

from .. import ashref as R
from .. import vloop
from ..ashharness import new_protocol, decode_writes
from ..runner import Acc

PROPERTY = "C04"
LEVEL = "exploration"
RULE = (
    "Cases are sequences of well-formed ASH frames (DATA with every frmNum/reTx and two ackNum "
    "values, ACK, NAK, RST, RSTACK with two codes, ERROR with two codes) fed one frame per "
    "data_received() call: exhaustive up to the tier's length bound from each of the 8 "
    "expected-number states (reached by a prefix of in-sequence DATA frames), plus long seeded "
    "random walks, some with a host send pending.  A sequence is non-trivial when it contains at "
    "least one DATA frame; distinct = distinct (start state, symbol sequence) or, for walks, "
    "distinct walk seeds x 1000-frame windows."
)
ASSUMPTIONS = [
    "rtmon.ashref encodes frames as UG101 prescribes (checked against the tree by C03)",
    "the upper layer interface is data_received(bytes) / reset_received(code) as in the pinned tree",
]
REACH = {
    t: ["combos_all_48", "rstack_midstream", "error_frame", "ack_nak_rst_no_upward",
        "wraps_1000", "pending_send_variant", "accepted", "dup_retx_acked", "out_of_seq_naked",
        "several_frames_in_one_read", "frames_after_host_side_failure", "frames_between_host_rst_and_rstack",
        "upper_layer_raised_while_taking_a_payload"]
    for t in ("quick", "thorough")
}
SHARD_TIMEOUT = {"quick": 600, "thorough": 2400}


def alphabet(acks):
    syms = []
    for frm in range(8):
        for retx in (0, 1):
            for ack in acks:
                syms.append(("D", frm, retx, ack))
    for ack in (0, 3):
        syms.append(("A", ack))
        syms.append(("N", ack))
    syms.append(("RST",))
    syms.append(("RSTACK", 0x0B))
    syms.append(("RSTACK", 0x02))
    syms.append(("ERROR", 0x51))
    syms.append(("ERROR", 0x80))
    return syms


SMALL = [("D", 0, 0, 0), ("D", 1, 0, 0), ("D", 1, 1, 0), ("D", 2, 0, 0), ("D", 7, 1, 5), ("D", 7, 0, 0),
         ("D", 4, 0, 0), ("D", 3, 1, 0), ("A", 1), ("N", 1), ("RST",), ("RSTACK", 0x0B),
         ("RSTACK", 0x06), ("ERROR", 0x52)]


def to_frame(sym, tag: int):
    """-> (wire bytes, reference Frame)."""
    k = sym[0]
    if k == "D":
        payload = bytes([0xA0 | sym[1], tag & 0xFF, (tag >> 8) & 0xFF])
        return (R.encode_data(sym[1], sym[2], sym[3], payload),
                R.Frame("DATA", frm=sym[1], retx=sym[2], ack=sym[3], payload=payload))
    if k == "A":
        return R.encode_ack(sym[1]), R.Frame("ACK", ack=sym[1])
    if k == "N":
        return R.encode_nak(sym[1]), R.Frame("NAK", ack=sym[1])
    if k == "RST":
        return R.encode_rst(), R.Frame("RST")
    if k == "RSTACK":
        return R.encode_rstack(sym[1]), R.Frame("RSTACK", version=2, code=sym[1])
    if k == "ERROR":
        return R.encode_error(sym[1]), R.Frame("ERROR", version=2, code=sym[1])
    raise ValueError(sym)


def shards(tier, seed):
    out = []
    if tier == "quick":
        for start in range(8):
            out.append({"part": "exh", "start": start, "depth": 3, "acks": [0, 5], "first": None, "seed": seed})
        walks, wl = 8, 60000
    else:
        syms = alphabet([0, 5])
        for start in range(8):
            for i in range(0, len(syms), 10):
                out.append({"part": "exh", "start": start, "depth": 3, "acks": [0, 5],
                            "first": [i, min(i + 10, len(syms))], "seed": seed})
            out.append({"part": "exh_small", "start": start, "depth": 5, "seed": seed})
        walks, wl = 16, 400000
    for w in range(walks):
        out.append({"part": "walk", "n": wl, "seed": seed * 1000 + w, "pending": w % 2 == 1})
    for start in range(8):
        out.append({"part": "multi", "start": start, "acks": [0, 5], "seed": seed, "n": 400 if tier == "quick" else 4000})
    for k in range(2 if tier == "quick" else 8):
        out.append({"part": "after_failure", "seed": seed * 10 + k, "n": 40 if tier == "quick" else 300})
    out.append({"part": "upper_raises", "seed": seed, "n": 60 if tier == "quick" else 600})
    # DEBUG logging (several times the cost per frame) on the small shards and on short walks of its own
    for d in out:
        d["debuglog"] = d["part"] in ("multi", "after_failure") and (d.get("start", d["seed"]) % 2 == 1)
    for w in range(2):
        out.append({"part": "walk", "n": 8000 if tier == "quick" else 40000, "seed": seed * 1000 + 500 + w, "pending": w == 1, "debuglog": True})
    out.append({"part": "exh", "start": 3, "depth": 2, "acks": [0, 5], "first": None, "seed": seed, "debuglog": True})
    return out


class UpperBoom(Exception):
    """Raised by the recorder above ASH when told to fail on a payload."""


class Stepper:
    """Feeds one frame at a time to a real AshProtocol and to the reference rule."""

    def __init__(self, acc: Acc, boom_tags=()):
        self.acc = acc
        self.proto, self.up, self.tr, self.log = new_protocol()
        if boom_tags:
            boom = {bytes([t_ & 0xFF, (t_ >> 8) & 0xFF]) for t_ in boom_tags}
            plain = self.up.data_received

            def data_received(data):
                plain(data)  # recorded as handed up: it was
                if bytes(data)[1:3] in boom:
                    raise UpperBoom(bytes(data).hex())

            self.up.data_received = data_received
        self.ref = R.RefDecoder()
        self.combos = set()
        self.wraps = 0
        self.hist = []

    def step(self, sym, tag, case) -> bool:
        acc = self.acc
        wire, fr = to_frame(sym, tag)
        before = self.ref.rx_seq
        want = self.ref.receive(fr)
        mark = len(self.log)
        try:
            self.proto.data_received(wire)
        except UpperBoom:
            # the layer above failed while taking the payload (deliberately, part "upper_raises"): how that
            # failure travels is not C04's business, the answer to the frame and the numbering are
            acc.hit("upper_layer_raised_while_taking_a_payload")
        except Exception as e:  # noqa: BLE001
            acc.violation("C04/raises", f"data_received raised {e!r} on well-formed {sym}", case, self.hist[-12:])
            return False
        got = decode_writes(self.log[mark:])
        # The property fixes the kind of the answer only for a frame that is accepted ("an ACK when the frame was
        # accepted"); a frame that is not the next expected one must get exactly one ACK or NAK carrying the next
        # expected number - which of the two is left open (bellows re-ACKs retransmissions and NAKs the rest).
        free_kind = fr.kind == "DATA" and fr.frm != before
        nk = (lambda e: ("tx", "ACK-or-NAK", e[2]) if free_kind and e[1] in ("ACK", "NAK") else e[:3])
        got_n = sorted([nk(g) if g[0] == "tx" else g for g in got], key=repr)
        want_n = sorted([nk(w) if w[0] == "tx" else w for w in want], key=repr)
        self.hist.append((sym, "expected", before, "got", got_n))
        acc.ev("frames")
        if fr.kind == "DATA":
            rel = "equal" if fr.frm == before else ("behind" if (before - fr.frm) % 8 <= 4 else "ahead")
            self.combos.add((before, rel, fr.retx))
            if fr.frm == before:
                acc.hit("accepted")
                if self.ref.rx_seq == 0:
                    self.wraps += 1
            elif fr.retx:
                acc.hit("dup_retx_acked")
            else:
                acc.hit("out_of_seq_naked")
            acc.state((before, want[0][1]))
        elif fr.kind == "RSTACK":
            if before != 0:
                acc.hit("rstack_midstream")
        elif fr.kind == "ERROR":
            acc.hit("error_frame")
        else:
            acc.hit("ack_nak_rst_no_upward")
        if got_n != want_n:
            ups_g = [g for g in got_n if g[0].startswith("up")]
            ups_w = [w for w in want_n if w[0].startswith("up")]
            if fr.kind == "DATA":
                if ups_g != ups_w:
                    if ups_g and not ups_w:
                        key = "C04/data/delivered-although-not-next-expected"
                    elif ups_w and not ups_g:
                        key = "C04/data/not-delivered-although-next-expected"
                    else:
                        key = "C04/data/wrong-payload"
                else:
                    key = "C04/data/wrong-answer"
            else:
                key = f"C04/{fr.kind}/wrong-reaction"
            acc.violation(key, f"frame {sym} with expected number {before}: host did {got_n}, rule says {want_n}",
                          case, self.hist[-12:])
            return False
        return True


def step_many(st: Stepper, syms, tags, case) -> bool:
    """Several frames in ONE read: the answers must be those of the frames taken one after the other,
    in the same order (one ACK / NAK per DATA frame, none merged away), and so must the deliveries."""
    acc = st.acc
    wires, want = [], []
    before = st.ref.rx_seq
    free = []  # per DATA frame of the read: is the kind of its answer left open (frame not accepted)?
    for sym, tag in zip(syms, tags):
        w, fr = to_frame(sym, tag)
        wires.append(w)
        if fr.kind == "DATA":
            free.append(fr.frm != st.ref.rx_seq)
        want += st.ref.receive(fr)
        if fr.kind == "DATA" and fr.frm == (st.ref.rx_seq - 1) % 8 and st.ref.rx_seq == 0:
            pass
    mark = len(st.log)
    try:
        st.proto.data_received(b"".join(wires))
    except Exception as e:  # noqa: BLE001
        acc.violation("C04/raises", f"data_received raised {e!r} on well-formed {syms} in one read", case, st.hist[-12:])
        return False
    got = decode_writes(st.log[mark:])
    got_tx = [g[:3] for g in got if g[0] == "tx"]
    want_tx = [w[:3] for w in want if w[0] == "tx"]
    if len(got_tx) == len(want_tx) == len(free):
        got_tx = [("tx", "ACK-or-NAK", g[2]) if f_ else g for g, f_ in zip(got_tx, free)]
        want_tx = [("tx", "ACK-or-NAK", w[2]) if f_ else w for w, f_ in zip(want_tx, free)]
    got_up = [g for g in got if g[0].startswith("up")]
    want_up = [w for w in want if w[0].startswith("up")]
    st.hist.append((tuple(syms), "one read, expected from", before, "got", got_tx, got_up))
    acc.ev("frames", len(syms))
    acc.hit("several_frames_in_one_read")
    if got_up != want_up:
        acc.violation("C04/data/delivery-differs-in-multi-frame-read",
                      f"frames {syms} in one read from expected number {before}: handed up {got_up}, rule says {want_up}", case, st.hist[-12:])
        return False
    if got_tx != want_tx:
        acc.violation("C04/data/wrong-answer", f"frames {syms} in one read from expected number {before}: host answered {got_tx}, "
                      f"rule says one answer per DATA frame, in order: {want_tx}", case, st.hist[-12:])
        return False
    return True


def part_multi(desc) -> Acc:
    """All pairs of frames in one read from every expected-number state, and seeded longer reads."""
    acc = Acc()
    syms = alphabet(desc["acks"])
    start = desc["start"]
    rnd = random.Random(desc["seed"] * 31 + start)
    for a in syms:
        for b in syms:
            case = {"part": "multi", "start": start, "seq": [list(a), list(b)]}
            acc.case()
            st = Stepper(acc)
            ok = all(st.step(("D", i, 0, 0), 0xFFFF, case) for i in range(start))
            if ok:
                step_many(st, [a, b], [1, 2], case)
            acc.nontrivial((start, "pair", a, b))
    for _ in range(desc.get("n", 400)):
        k = rnd.choice([3, 3, 4, 5, 8])
        st = Stepper(acc)
        for i in range(start):
            st.step(("D", i, 0, 0), 0xFFFF, {})
        seq = []
        exp = start
        for _j in range(k):
            if rnd.random() < 0.6:
                seq.append(("D", exp, rnd.randrange(2), rnd.randrange(8)))
                exp = (exp + 1) % 8
            else:
                seq.append(rnd.choice(syms))
                if seq[-1][0] == "RSTACK":
                    exp = 0
                elif seq[-1][0] == "D" and seq[-1][1] == exp:
                    exp = (exp + 1) % 8
        case = {"part": "multi", "start": start, "seq": [list(x) for x in seq]}
        acc.case()
        step_many(st, seq, list(range(1, k + 1)), case)
        acc.nontrivial((start, "read", tuple(seq)))
    acc.sample({"start_expected": start, "frames_in_one_read": [list(syms[0]), list(syms[9])]})
    return acc


def part_after_failure(desc) -> Acc:
    """The receive rule does not depend on the state of the host's own sender: after the host gave up on
    a send of its own (retry budget exhausted by timeouts or NAKs) every frame is still treated by the
    rule - in particular an ERROR frame still reports its code upward, an RSTACK restarts numbering."""
    acc = Acc()
    rnd = random.Random(desc["seed"])
    syms = alphabet([0, 5]) + [("ERROR", c) for c in (0x00, 0x51, 0x80, 0xFF)] + [("RSTACK", c) for c in (0x00, 0x0B, 0xFF)]

    async def main(loop):
        for how in ("timeouts", "naks", "host_rst", "host_rst_twice"):
            for start in (0, 3):
                for tail in [[("ERROR", 0x80)], [("ERROR", 0x00)], [("ERROR", 0x51), ("ERROR", 0x52)], [("D", start, 0, 0), ("ERROR", 0xFF)],
                             [("RSTACK", 0x0B), ("D", 0, 0, 0)], [("A", 1), ("N", 0), ("ERROR", 0x53)]] + \
                        [[rnd.choice(syms) for _ in range(4)] for _ in range(desc["n"])]:
                    case = {"part": "after_failure", "how": how, "start": start, "seq": [list(x) for x in tail]}
                    acc.case()
                    st = Stepper(acc)
                    ok = all(st.step(("D", i, 0, 0), 0xFFFF, case) for i in range(start))
                    if not ok:
                        continue
                    if how.startswith("host_rst"):
                        # the host asked for a reset of its own (RST written, RSTACK not here yet): what the peer
                        # still sends - callbacks in flight, an ERROR instead of the RSTACK - is judged by the same rule
                        for _ in range(2 if how.endswith("twice") else 1):
                            try:
                                st.proto.send_reset()
                            except Exception as e:  # noqa: BLE001
                                acc.violation("C04/raises", f"send_reset() raised {e!r}", case)
                        acc.hit("frames_between_host_rst_and_rstack")
                        tag = 100
                        for sym in tail:
                            tag += 1
                            if not st.step(sym, tag, case):
                                break
                        acc.nontrivial(("after_failure", how, start, tuple(tail)))
                        continue
                    task = asyncio.ensure_future(st.proto.send_data(b"host-frame"))
                    await asyncio.sleep(0)
                    for _ in range(12):
                        if task.done():
                            break
                        if how == "naks":
                            # reject whatever the host has outstanding (its frame number is 0)
                            st.proto.data_received(R.encode_nak(0))
                            await asyncio.sleep(0.01)
                        else:
                            await asyncio.sleep(3.3)
                    try:
                        await asyncio.wait_for(task, 40)
                    except BaseException:  # noqa: BLE001
                        pass
                    if not any(e[0] == "up_reset" for e in st.log):
                        acc.notes.append("host-side failure was not reached in the after-failure scenario")
                        continue
                    acc.hit("frames_after_host_side_failure")
                    tag = 100
                    for sym in tail:
                        tag += 1
                        if not st.step(sym, tag, case):
                            break
                    acc.nontrivial(("after_failure", how, start, tuple(tail)))

    vloop.run(main)
    acc.sample({"after_host_side_failure": True, "examples": [["ERROR", 0x80], ["RSTACK", 0x0B]]})
    return acc


def part_upper_raises(desc) -> Acc:
    """The layer above ASH fails while it is handed a payload (an exception leaves its data_received).
    The frame was accepted: it is still answered with exactly one ACK carrying the next number, it is not
    handed up again when the peer repeats it, and the frames that follow are treated by the same rule."""
    acc = Acc()
    rnd = random.Random(desc["seed"])
    syms = alphabet([0, 5])
    for start in range(8):
        for n in range(desc["n"]):
            k = rnd.choice([2, 3, 4, 6])
            seq, exp, booms = [], start, set()
            for j in range(k):
                if rnd.random() < 0.65:
                    seq.append(("D", exp, rnd.randrange(2), rnd.randrange(8)))
                    if rnd.random() < 0.6 or not booms:
                        booms.add(j + 1)
                    exp = (exp + 1) % 8
                    if rnd.random() < 0.3:
                        # the peer repeats the frame it already got an answer for
                        seq.append(("D", (exp - 1) % 8, 1, 0))
                else:
                    seq.append(rnd.choice(syms))
                    if seq[-1][0] == "RSTACK":
                        exp = 0
                    elif seq[-1][0] == "D" and seq[-1][1] == exp:
                        exp = (exp + 1) % 8
            case = {"part": "upper_raises", "start": start, "seq": [list(x) for x in seq], "fails_on": sorted(booms)}
            acc.case()
            st = Stepper(acc, boom_tags=booms)
            ok = all(st.step(("D", i, 0, 0), 0xFFFF, case) for i in range(start))
            tag = 0
            for sym in seq:
                tag += 1
                if not ok or not st.step(sym, tag, case):
                    break
            acc.nontrivial(("upper_raises", start, tuple(seq), tuple(sorted(booms))))
    acc.sample({"part": "upper_raises", "example": case})
    return acc


def run_seq(acc: Acc, start: int, seq, case, combos: set, stats):
    st = Stepper(acc)
    for i in range(start):
        if not st.step(("D", i, 0, 0), 0xFFFF, case):
            return
    tag = 0
    for sym in seq:
        tag += 1
        if not st.step(sym, tag, case):
            break
    combos |= st.combos


def part_exh(desc, syms, depth, first=None) -> Acc:
    acc = Acc()
    combos = set()
    start = desc["start"]
    firsts = syms if first is None else syms[first[0]:first[1]]
    # every sequence of exactly `depth` frames (shorter ones are prefixes: each step is checked)
    for f in firsts:
        for tail in itertools.product(syms, repeat=depth - 1):
            seq = (f,) + tail
            case = {"part": "seq", "start": start, "seq": [list(s) for s in seq]}
            acc.case()
            run_seq(acc, start, seq, case, combos, None)
            if any(s[0] == "D" for s in seq):
                acc.nontrivial((start, seq))
    for c in combos:
        acc.reach["combo:%d:%s:%d" % c] += 1
    acc.sample({"start_expected": start, "sequence": [list(s) for s in (firsts[0], syms[-3], syms[5])][:depth],
                "meaning": "D=(frmNum,reTx,ackNum) A/N=(ackNum) RSTACK/ERROR=(code)"})
    return acc


def part_walk(desc) -> Acc:
    acc = Acc()
    rnd = random.Random(desc["seed"])
    n = desc["n"]
    syms = alphabet([0, 2, 5, 7]) + [("RSTACK", c) for c in (0, 1, 3, 9)] + [("ERROR", 0x53)]
    case = {"part": "walk", "seed": desc["seed"], "n": n, "pending": desc["pending"]}

    def body(st: Stepper):
        for i in range(n):
            exp = st.ref.rx_seq
            r = rnd.random()
            if r < 0.55:
                sym = ("D", exp, rnd.randrange(2), rnd.randrange(8))  # in sequence -> wraps
            elif r < 0.97:
                sym = rnd.choice(syms[:64])
            else:
                sym = rnd.choice(syms)
            if not st.step(sym, i, case):
                return False
            if i % 997 == 500 and desc["seed"] % 2 == 0:
                st.proto.send_reset()  # host-initiated reset requested in mid-stream; the rule is unchanged
                st.hist.append(("host called send_reset()",))
                acc.hit("frames_between_host_rst_and_rstack")
            if i % 1000 == 0:
                acc.nontrivial(("walk", desc["seed"], i // 1000))
        return True

    st_holder = {}
    if desc["pending"]:
        async def main(loop):
            st = Stepper(acc)
            st_holder["st"] = st
            # a host send is pending (and repeatedly re-issued) while frames arrive
            tasks = []

            async def sender():
                k = 0
                while True:
                    k += 1
                    try:
                        await st.proto.send_data(b"host%d" % k)
                    except Exception:  # noqa: BLE001  - NAKs / failed state are expected here
                        pass
                    await asyncio.sleep(0)

            tasks.append(asyncio.ensure_future(sender()))
            # interleave: yield to the loop every few frames so the sender runs
            ok = True
            chunk = 50
            i = 0
            saved_n = n
            while i < saved_n and ok:
                for _ in range(chunk):
                    exp = st.ref.rx_seq
                    r = rnd.random()
                    if r < 0.55:
                        sym = ("D", exp, rnd.randrange(2), rnd.randrange(8))
                    else:
                        sym = rnd.choice(syms)
                    # writes of the pending sender are DATA frames: filter them out below
                    mark = len(st.log)
                    if not st.step(sym, i, case):
                        ok = False
                        break
                    i += 1
                    if i % 1000 == 0:
                        acc.nontrivial(("walkp", desc["seed"], i // 1000))
                await asyncio.sleep(0)
            acc.hit("pending_send_variant")
            for t_ in tasks:
                t_.cancel()

        # DATA frames written by the sender would confuse the per-frame comparison only if
        # written *during* data_received(); the sender runs between calls, so they never are.
        vloop.run(main)
        st = st_holder["st"]
    else:
        st = Stepper(acc)
        body(st)
    if st.wraps >= 1000:
        acc.hit("wraps_1000")
    acc.ev("wraps", st.wraps)
    for c in st.combos:
        acc.reach["combo:%d:%s:%d" % c] += 1
    acc.case()
    acc.sample({"walk_seed": desc["seed"], "frames": n, "wraps": st.wraps, "pending_send": desc["pending"],
                "last_steps": [repr(h) for h in st.hist[-3:]]})
    return acc


def run_shard(desc) -> Acc:
    from .. import logmode

    logmode.apply(desc)
    if desc["part"] == "multi":
        return part_multi(desc)
    if desc["part"] == "after_failure":
        return part_after_failure(desc)
    if desc["part"] == "upper_raises":
        return part_upper_raises(desc)
    if desc["part"] == "exh":
        acc = part_exh(desc, alphabet(desc["acks"]), desc["depth"], desc.get("first"))
    elif desc["part"] == "exh_small":
        acc = part_exh(desc, SMALL, desc["depth"])
    else:
        acc = part_walk(desc)
    return acc


def post_merge(reach, tier):
    """Called by the runner after merging: derive aggregate reach counters."""
    combos = [k for k in reach if k.startswith("combo:")]
    if len(combos) >= 48:
        reach["combos_all_48"] = len(combos)


def replay(case) -> Acc:
    acc = Acc()
    if case.get("part") == "multi":
        st = Stepper(acc)
        for i in range(case["start"]):
            st.step(("D", i, 0, 0), 0xFFFF, case)
        step_many(st, [tuple(x) for x in case["seq"]], list(range(1, len(case["seq"]) + 1)), case)
        print(st.hist[-3:])
    elif case.get("part") == "upper_raises":
        st = Stepper(acc, boom_tags=set(case["fails_on"]))
        for i in range(case["start"]):
            st.step(("D", i, 0, 0), 0xFFFF, case)
        for tag, sym in enumerate(case["seq"], 1):
            if not st.step(tuple(sym), tag, case):
                break
        for h in st.hist[-8:]:
            print(h)
    elif case.get("part") == "seq":
        run_seq(acc, case["start"], [tuple(s) for s in case["seq"]], case, set(), None)
    elif case.get("part") == "walk":
        return part_walk({"seed": case["seed"], "n": case["n"], "pending": case["pending"]})
    return acc
