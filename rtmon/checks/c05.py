"""C05 - ASH sends end within the retry budget; a failed link stays silent until reset.

Real AshProtocol on the virtual-time loop against a *scripted* peer: for every attempt of
every send the peer reacts as the case prescribes (covering ACK, stale ACK, NAK, covering NAK,
piggy-backed ack on a DATA frame, silence, ERROR, RSTACK) after a delay from
{same instant, 0.1 s, exactly the ACK-timeout instant ordered before the timer, exactly that
instant ordered after the timer}.  The oracle is an offline trace specification over the
timestamped wire trace, upward notifications and send outcomes.
"""
from __future__ import annotations

from ..excfam import family

import asyncio
import itertools
import random

from .. import ashref as R
from .. import vloop
from ..runner import Acc
from .. import logmode

PROPERTY = "C05"
LEVEL = "fault_enumeration"
RULE = (
    "A case is a list of sends, each with a per-attempt script of peer reactions "
    "(kind x delay class), optionally followed by a send after failure, (optionally the host's own RST "
    "and another send before the RSTACK,) an RSTACK and a recovery send.  Single-send scripts are enumerated exhaustively up to the tier's prefix depth of "
    "non-terminating reactions x every terminating reaction (and sampled beyond); multi-send "
    "cases with queued concurrent callers are seeded-random.  Non-trivial = at least one "
    "retransmission, failure or boundary-instant reaction occurred; distinct = distinct decoded "
    "wire/notification traces (frame kinds, numbers, flags, time gaps rounded to 1 ms)."
)
ASSUMPTIONS = [
    "T_RX_ACK_MIN/MAX = 0.4/3.2 s and the failure reason 0x51 are protocol constants (UG101); the "
    "attempt budget is read from the tree (bellows.ash.ACK_TIMEOUTS)",
    "virtual-time loop schedule model of DESIGN 2.1; bellows.ash.time follows the virtual clock",
    "ACK-timeout instants are discovered from the timers the host schedules on the loop",
]
REACH = {
    t: ["completed_on_attempt_1", "completed_on_attempt_2", "completed_on_attempt_3",
        "completed_on_last_attempt", "exhausted_by_timeouts", "exhausted_by_naks", "exhausted_mixed",
        "ack_at_boundary_before_timer", "ack_at_boundary_after_timer", "nak_at_boundary",
        "error_while_pending", "error_while_idle", "queued_send_failed", "send_after_failure_raised",
        "recovery_after_rstack", "immediate_retry_on_nak", "timeout_retry", "piggyback_ack",
        "rstack_while_pending", "three_sends_queued", "timeout_at_floor", "old_acknum_delivered",
        "send_between_host_rst_and_rstack_on_failed_link", "caller_cancelled_in_flight", "error_after_host_side_failure"]
    for t in ("quick", "thorough")
}
SHARD_TIMEOUT = {"quick": 600, "thorough": 3000}

T_MIN, T_MAX, EPS = 0.4, 3.2, 1e-6
REASON_EXHAUSTED = 0x51

NT = [("sil",), ("stale", "0"), ("stale", "T-"), ("nak", "0"), ("nak", "d"), ("nak", "T-"), ("nak", "T+"),
      ("stale_old", "0"), ("stale_far", "d"), ("dstale", "0"),
      # a NAK that asks for a frame other than the outstanding one (a left-over of an earlier exchange): still a
      # NAK - the repeat follows at once, with the frame number the send started with
      ("nak_old", "0"), ("nak_far", "d"),
      # an RSTACK in mid-send that is not the end of the story: the frame in flight goes on (and may still
      # be acknowledged), sends that were already waiting behind it start in the new session
      ("rstack", "0", 0x0B), ("rstack", "d", 0x0B)]
TERM = [("ack", "0"), ("ack", "d"), ("ack", "T-"), ("ack", "T+"), ("nakc", "0"), ("dack", "0"),
        ("dack", "T-"), ("err", "0", 0x51), ("err", "d", 0x80), ("err", "T-", 0x52), ("err", "T+", 0x51),
        ("rstack", "0", 0x0B), ("rstack", "d", 0x02)]


# -- harness ----------------------------------------------------------------------------
class Upper:
    def __init__(self, trace, clock):
        self.trace, self.clock = trace, clock

    def connection_made(self, p):
        pass

    def connection_lost(self, exc):
        self.trace.append(("up_lost", self.clock(), repr(exc)))

    def eof_received(self):
        pass

    def data_received(self, data):
        self.trace.append(("up_data", self.clock(), bytes(data)))

    def reset_received(self, code):
        self.trace.append(("up_reset", self.clock(), int(code)))
        if self.on_reset is not None:
            self.on_reset(int(code))

    on_reset = None

    def error_received(self, code):
        self.trace.append(("up_reset", self.clock(), int(code)))


class Transport:
    def __init__(self, trace, clock, on_frame):
        self.trace, self.clock, self.on_frame = trace, clock, on_frame
        self.closing = False

    def write(self, data):
        frames, rest = R.split_wire(bytes(data))
        for cancel, fr, raw in frames:
            self.trace.append(("tx", self.clock(), fr, cancel))
            if fr is not None:
                self.on_frame(fr)

    def is_closing(self):
        return self.closing

    def close(self):
        self.closing = True


def _tree_floor() -> float:
    """The floor the tree itself configures for the adaptive timeout (reach accounting only: the bound that is
    enforced is the protocol's 0.4 s)."""
    try:
        import bellows.ash as ash_

        return max(T_MIN, float(getattr(ash_, "T_RX_ACK_MIN", T_MIN)))
    except Exception:  # noqa: BLE001
        return T_MIN


_SHIFT = [0]  # set per case (run_case): which sends get the long payloads


def marker(i: int) -> bytes:
    # short ones, and ones as long as real EZSP frames get (40 and 180 bytes)
    j_ = i + _SHIFT[0]
    tail = bytes((i * 7 + j) & 0xFF for j in range(180 if j_ % 7 == 3 else 40 if j_ % 3 == 1 else 0))
    return b"S%03d" % i + bytes([0x7E, 0x11, i & 0xFF]) + tail


def run_case(case, acc: Acc | None = None):
    _SHIFT[0] = sum(len(sc) * 3 + len(repr(sc)) for sc in case.get("sends", [])) % 21
    """Executes one case; returns (trace, problems) where problems come from the harness
    itself (hang).  The trace is judged by check_trace()."""
    import bellows.ash as ash

    trace: list = []
    info = {"hang": None, "boundary_unknown": 0}

    async def main(loop: vloop.VLoop):
        clock = loop.time
        scripts = {i: list(s) for i, s in enumerate(case["sends"])}
        attempts: dict[int, int] = {}
        peer_tx = [0]  # frame number of the next DATA the peer sends

        proto = None

        def deliver(kind, arg=None, frm=None):
            # one external event = one data_received() call in its own loop callback
            if kind == "ack":
                wire = R.encode_ack(arg)
            elif kind == "nak":
                wire = R.encode_nak(arg)
            elif kind == "data":
                wire = R.encode_data(peer_tx[0], 0, arg, b"cb")
                peer_tx[0] = (peer_tx[0] + 1) % 8
            elif kind == "err":
                wire = R.encode_error(arg)
            elif kind == "rstack":
                wire = R.encode_rstack(arg)
                peer_tx[0] = 0
            trace.append(("rx", clock(), kind, arg))
            proto.data_received(wire)

        def react(idx, frm, att):
            script = scripts.get(idx, [])
            r = script[att - 1] if att - 1 < len(script) else ("sil",)
            if r[0] == "sil":
                return
            dl = r[1]
            kind, arg = {
                "ack": ("ack", (frm + 1) % 8),
                "stale": ("ack", frm),
                "stale_old": ("ack", (frm - 1) % 8),   # acknowledges nothing new: older than the outstanding frame
                "stale_far": ("ack", (frm - 3) % 8),
                "dstale": ("data", (frm - 2) % 8),       # a DATA frame still carrying an old ackNum
                "nak": ("nak", frm),
                "nakc": ("nak", (frm + 1) % 8),
                "nak_old": ("nak", (frm - 1) % 8),
                "nak_far": ("nak", (frm + 3) % 8),
                "dack": ("data", (frm + 1) % 8),
                "err": ("err", r[2] if len(r) > 2 else 0x51),
                "rstack": ("rstack", r[2] if len(r) > 2 else 0x0B),
            }[r[0]]
            now = clock()
            if dl == "0":
                loop.io_at(now, deliver, kind, arg)
            elif dl == "d":
                loop.io_at(now + 0.1, deliver, kind, arg)
            else:
                ts = loop.pending_host_timers()
                if not ts:
                    info["boundary_unknown"] += 1
                    loop.io_at(now + 0.1, deliver, kind, arg)
                    return
                T = ts[0]
                if dl == "L":
                    # late, but well in time: three quarters of the way to the pending timeout (a slow NCP)
                    loop.io_at(now + 0.75 * (T - now), deliver, kind, arg)
                elif dl == "T-":
                    loop.io_at(T, deliver, kind, arg)
                else:
                    loop.io_after(T, deliver, kind, arg)

        def on_frame(fr):
            if fr.kind != "DATA" or not fr.payload.startswith(b"S"):
                return
            try:
                idx = int(fr.payload[1:4])
            except ValueError:
                return
            attempts[idx] = attempts.get(idx, 0) + 1
            for (ci, catt, cdelay) in case.get("cancel", []):
                if ci == idx and catt == attempts[idx] and ci < len(task_box):
                    # the caller of this send is cancelled while its frame is in flight
                    loop.io_at(clock() + cdelay, task_box[ci].cancel)
            # decide in the next loop iteration, when the host has armed its timer
            loop._harness += 1
            try:
                loop.call_soon(react, idx, fr.frm, attempts[idx])
            finally:
                loop._harness -= 1

        task_box = []
        up = Upper(trace, clock)
        proto = ash.AshProtocol(up)
        tr = Transport(trace, clock, on_frame)
        proto.connection_made(tr)

        async def do_send(i):
            trace.append(("call", clock(), i))
            try:
                await proto.send_data(marker(i))
            except asyncio.CancelledError:
                trace.append(("cancelled", clock(), i))
                raise
            except BaseException as e:  # noqa: BLE001
                trace.append(("exc", clock(), i, family(e)))
            else:
                trace.append(("ret", clock(), i))

        n = len(case["sends"])
        first = case.get("concurrent", n)
        extra = []
        if case.get("send_on_reset"):
            # the layer above reacts to a reset notification by sending (as EZSP does with its version query):
            # that send is new traffic, issued while whatever was queued before the reset is still going on
            def on_reset(code):
                if code == 0x0B and len(extra) < case["send_on_reset"]:
                    idx = 900 + len(extra)
                    scripts[idx] = [("ack", "d")]
                    loop._harness += 1
                    try:
                        extra.append(loop.call_soon(lambda: extra_tasks.append(asyncio.ensure_future(do_send(idx)))))
                    finally:
                        loop._harness -= 1

            up.on_reset = on_reset
        extra_tasks = []
        if case.get("error_while_idle") is not None:
            deliver("err", case["error_while_idle"])
            await vloop.settle(loop)
        tasks = [asyncio.ensure_future(do_send(i)) for i in range(first)]
        task_box.extend(tasks)
        if tasks:
            await asyncio.wait(tasks)
        if case.get("cancel"):
            # the cancelled caller is gone but its frame may still be going through its budget
            await asyncio.sleep(float(ash.ACK_TIMEOUTS) * T_MAX + 1.0)
        for i in range(first, n):
            await do_send(i)
        await vloop.settle(loop, 4)
        if extra_tasks:
            await asyncio.wait(extra_tasks)
        up.on_reset = None
        nxt = n
        if case.get("error_after"):
            # an ERROR frame after everything else (e.g. after the host gave up on its own): it is a
            # failure indication of its own and must be reported upward with its code
            deliver("err", case["error_after"])
            await vloop.settle(loop, 4)
        if case.get("followup"):
            # a send while (possibly) failed, then RSTACK, then a recovery send
            scripts[nxt] = [("ack", "0")]
            await do_send(nxt)
            nxt += 1
            await vloop.settle(loop, 4)
            if case["followup"] == "rst":
                # the host asks for a reset itself; until the RSTACK has *arrived* the link is as
                # failed as before: a send in that window must not put a DATA frame on the wire
                trace.append(("host_rst", clock()))
                try:
                    proto.send_reset()
                except BaseException as e:  # noqa: BLE001
                    trace.append(("host_rst_raised", clock(), repr(e)))
                scripts[nxt] = [("ack", "0")]
                await do_send(nxt)
                nxt += 1
                await vloop.settle(loop, 4)
            loop.io_at(clock() + 0.05, deliver, "rstack", 0x0B)
            await asyncio.sleep(0.1)
            scripts[nxt] = [("ack", "d")]
            await do_send(nxt)
            await vloop.settle(loop, 4)
        trace.append(("end", clock()))

    try:
        vloop.run(main)
    except vloop.Deadlock:
        info["hang"] = "event loop ran dry with a send still pending"
    return trace, info


# -- offline oracle ---------------------------------------------------------------------
def check_trace(trace, max_attempts: int):
    """Returns (violations [(key,msg)], facts dict)."""
    bad = []
    facts = {}
    sends: dict[int, dict] = {}
    order_first = []  # first-attempt frames in wire order: (t, idx, frm)
    failed_since = None  # time of the failure event that has not been cleared by an RSTACK
    rstack_since_first = True  # numbering expected to (re)start at 0
    last_first_frm = None
    spontaneous = []
    cur_rx = None  # (t, kind, arg) being delivered "now" (same timestamp grouping below)
    pending_reset_expect = []  # codes of ERROR/RSTACK deliveries whose upward report is due

    def S(i):
        return sends.setdefault(i, {"att": [], "frm": None, "call": None, "end": None, "outcome": None,
                                    "cover": [], "naks": [], "errs": [], "rstacks": []})

    open_sends = lambda t: [s for s in sends.values() if s["call"] is not None and s["end"] is None]  # noqa: E731

    for ev_i, ev in enumerate(trace):
        k, t = ev[0], ev[1]
        if k == "call":
            S(ev[2])["call"] = t
            S(ev[2])["failed_at_call"] = failed_since is not None
        elif k in ("ret", "exc"):
            s = S(ev[2])
            s["end"] = t
            s["outcome"] = k if k == "ret" else ev[3]
        elif k == "cancelled":
            # the caller went away; the frame itself is still the link's business
            s = S(ev[2])
            s["end"] = t
            s["outcome"] = "cancelled"
        elif k == "tx":
            fr = ev[2]
            if fr is None:
                bad.append(("C05/wire/undecodable-frame", f"host wrote an undecodable frame at {t:.3f}"))
                continue
            if fr.kind != "DATA":
                continue
            if failed_since is not None:
                bad.append(("C05/silence/data-after-failure",
                            f"DATA frm={fr.frm} written at {t:.3f} although the link failed at "
                            f"{failed_since:.3f} and no RSTACK was received since"))
            try:
                idx = int(fr.payload[1:4])
            except ValueError:
                bad.append(("C05/wire/unknown-payload", f"DATA with a payload nobody submitted: {fr.payload!r}"))
                continue
            s = S(idx)
            if fr.payload != marker(idx):
                bad.append(("C05/attempt/payload-changed", f"send {idx}: payload on the wire {fr.payload!r}"))
            if not s["att"]:
                # first attempt: numbering and the one-outstanding rule
                if fr.retx:
                    bad.append(("C05/attempt/retx-flag-on-first", f"send {idx}: first attempt carries reTx"))
                if rstack_since_first:
                    if fr.frm != 0:
                        bad.append(("C05/numbering/not-zero-after-reset",
                                    f"first DATA after start/RSTACK has frmNum {fr.frm}"))
                elif fr.frm != (last_first_frm + 1) % 8:
                    bad.append(("C05/numbering/not-consecutive",
                                f"send {idx} uses frmNum {fr.frm} after {last_first_frm}"))
                for j, o in sends.items():
                    # (a frame first written before an RSTACK belongs to the old session: it is void, not outstanding)
                    if j != idx and o["att"] and not o["cover"] and not o.get("dead") and \
                            not (o["rstacks"] and o["att_i"][0] < max(o["rstack_i"])):
                        bad.append(("C05/window/two-unacknowledged-frames",
                                    f"send {idx} (frm {fr.frm}) written at {t:.3f} while send {j} "
                                    f"(frm {o['frm']}) has neither been acknowledged nor failed"))
                rstack_since_first = False
                last_first_frm = fr.frm
                s["frm"] = fr.frm
            else:
                if fr.frm != s["frm"]:
                    bad.append(("C05/attempt/frame-number-changed",
                                f"send {idx}: attempt {len(s['att']) + 1} uses frmNum {fr.frm}, first used {s['frm']}"))
                if not fr.retx:
                    bad.append(("C05/attempt/retx-flag-missing",
                                f"send {idx}: attempt {len(s['att']) + 1} does not carry the reTx flag"))
                prev_t = s["att"][-1]
                gap = t - prev_t
                nak_now = any(abs(nt - t) < EPS for nt in s["naks"] if nt >= prev_t - EPS)
                if not nak_now and not (T_MIN - EPS <= gap <= T_MAX + EPS):
                    bad.append(("C05/timing/retry-gap-outside-bounds",
                                f"send {idx}: attempt {len(s['att']) + 1} came {gap:.4f}s after the previous one "
                                f"with no NAK delivered at that instant (allowed {T_MIN}..{T_MAX}s)"))
                facts["immediate_retry_on_nak" if nak_now else "timeout_retry"] = True
                if not nak_now and gap < _tree_floor() + 0.01:
                    facts["timeout_at_floor"] = True
            s["att"].append(t)
            s.setdefault("att_i", []).append(ev_i)
            if len(s["att"]) > max_attempts:
                bad.append(("C05/budget/too-many-attempts",
                            f"send {idx}: {len(s['att'])} attempts, budget is {max_attempts}"))
        elif k == "rx":
            kind, arg = ev[2], ev[3]
            if kind in ("ack", "nak", "data"):
                for s in sends.values():
                    if s["att"] and (s["end"] is None or s["outcome"] == "cancelled"):
                        if arg == (s["frm"] + 1) % 8 and t >= s["att"][0] - EPS:
                            s["cover"].append(t)
                        if kind == "nak":
                            s["naks"].append(t)
            elif kind == "err":
                pending_reset_expect.append((t, arg, "ERROR"))
                failed_since = t
                for s in sends.values():
                    if s["call"] is not None and (s["end"] is None or (s["outcome"] == "cancelled" and not s.get("dead") and not s["cover"])):
                        s["errs"].append(t)
                        s["dead"] = True
                facts["error_delivered"] = True
            elif kind == "rstack":
                pending_reset_expect.append((t, arg, "RSTACK"))
                failed_since = None
                rstack_since_first = True
                for s in sends.values():
                    if s["call"] is not None and (s["end"] is None or (s["outcome"] == "cancelled" and not s.get("dead") and not s["cover"])):
                        s["rstacks"].append(t)
                        s.setdefault("rstack_i", []).append(ev_i)
        elif k == "up_reset":
            code = ev[2]
            m = next((p for p in pending_reset_expect if abs(p[0] - t) < EPS and p[1] == code), None)
            if m is not None:
                pending_reset_expect.remove(m)
            else:
                spontaneous.append((t, code))
                failed_since = t if failed_since is None else failed_since
                for s in sends.values():
                    if s["att"] and (s["end"] is None or (s["outcome"] == "cancelled" and not s["cover"])):
                        s["dead"] = True
    for p in pending_reset_expect:
        bad.append((f"C05/notify/{p[2]}-not-reported", f"{p[2]}(0x{p[1]:02x}) delivered at {p[0]:.3f} was not reported upward"))

    # per-send outcome rules
    exhausted = 0
    ambiguous = 0  # budget ran out in the very instant an ERROR frame was delivered: both are events
    for i, s in sorted(sends.items()):
        if s["call"] is None:
            continue
        if s["end"] is None:
            bad.append(("C05/termination/send-never-ended", f"send {i} neither returned nor raised"))
            continue
        n = len(s["att"])
        if s["outcome"] == "ret":
            cov = [c for c in s["cover"] if c <= s["end"] + EPS]
            if not cov:
                bad.append(("C05/outcome/returned-without-covering-ack",
                            f"send {i} returned at {s['end']:.3f} but no frame with ackNum {(s['frm'] or 0) + 1} "
                            f"was delivered while it was pending"))
            if n:
                facts[f"completed_on_attempt_{n}"] = True
                if n == max_attempts:
                    facts["completed_on_last_attempt"] = True
        else:
            if s["outcome"] == "cancelled":
                facts["caller_cancelled_in_flight"] = True
                if s["cover"]:
                    # nobody is waiting any more; the frame was acknowledged at some point - but if that
                    # happened in the very instant a timeout expired the host may have gone on retrying
                    # (raising although acknowledged is allowed), so a full budget is "maybe exhausted"
                    if n >= max_attempts:
                        ambiguous += 1
                    continue
            by_error = bool(s["errs"]) or s.get("failed_at_call")
            if n >= max_attempts and not s["errs"] and any(s["att"][-1] - EPS <= r and (r <= s["end"] + EPS or s["outcome"] == "cancelled") for r in s["rstacks"]):
                # an RSTACK arrived while the last attempt was waiting: the send may end because of it (a new
                # session has begun) or run out of budget as if nothing had happened - a notification for the
                # exhausted budget is due only in the second case, and the trace cannot tell the two apart
                ambiguous += 1
            elif n >= max_attempts and not s["errs"]:
                exhausted += 1
                kinds = facts.setdefault("_exh", [])
                kinds.append((len([x for x in s["naks"]]), n))
            elif n >= max_attempts and s["outcome"] == "cancelled" and any(e >= s["att"][-1] + T_MIN - EPS for e in s["errs"]):
                # nobody waits for this frame any more (its caller was cancelled), so the trace does not show when the
                # host stopped retrying: an ERROR frame delivered once the last attempt had been waiting for at least
                # the minimum timeout may have coincided with the budget running out - both are events then
                ambiguous += 1
            elif n >= max_attempts and any(abs(e - s["end"]) < EPS for e in s["errs"]) and \
                    (s["end"] - s["att"][-1] >= T_MIN - EPS or any(nk >= s["att"][-1] - EPS for nk in s["naks"])):
                # the budget ran out (last timeout, or a NAK for the last attempt) in the very instant an ERROR
                # frame was delivered: both are events
                ambiguous += 1
            elif s["outcome"] == "cancelled":
                facts["caller_cancelled_in_flight"] = True
            elif not by_error and not s["rstacks"]:
                # raised within the budget, with the link healthy
                prior_fail = any(sp[0] <= s["end"] + EPS for sp in spontaneous)
                if not prior_fail:
                    bad.append(("C05/outcome/raised-within-budget",
                                f"send {i} raised {s['outcome']} after {n} attempt(s) although the budget is "
                                f"{max_attempts} and no ERROR frame or failure occurred"))
            if n == 0:
                facts["send_raised_without_writing"] = True
    if not (exhausted <= len(spontaneous) <= exhausted + ambiguous):
        # a send that was queued behind an exhausted one fails without a new notification
        bad.append(("C05/notify/failure-reports-mismatch",
                    f"{exhausted} send(s) exhausted the budget but the upper layer received "
                    f"{len(spontaneous)} unsolicited failure notification(s): {spontaneous}"))
    for t, code in spontaneous:
        if code != REASON_EXHAUSTED:
            bad.append(("C05/notify/wrong-reason", f"failure reported with reason 0x{code:02x}, expected 0x51"))
    facts["exhausted"] = exhausted
    facts["sends"] = sends
    return bad, facts


def signature(trace):
    sig = []
    last_t = None
    for ev in trace:
        k, t = ev[0], ev[1]
        dt = 0 if last_t is None else round(t - last_t, 3)
        last_t = t
        if k == "tx":
            sig.append((dt, "tx", ev[2].sig() if ev[2] else None))
        elif k == "rx":
            sig.append((dt, "rx", ev[2], ev[3]))
        elif k in ("ret", "exc", "call"):
            sig.append((dt, k, ev[2]))
        elif k == "up_reset":
            sig.append((dt, k, ev[2]))
    return tuple(sig)


def pretty(trace):
    out = []
    for ev in trace:
        k, t = ev[0], ev[1]
        if k == "tx":
            out.append(f"{t - 100:9.4f} host->  {ev[2].sig() if ev[2] else 'undecodable'}")
        elif k == "rx":
            out.append(f"{t - 100:9.4f}   ->host {ev[2]} {ev[3]}")
        else:
            out.append(f"{t - 100:9.4f} {k} {ev[2:]}")
    return out


def judge_case(acc: Acc, case):
    import bellows.ash as ash

    maxa = int(ash.ACK_TIMEOUTS)
    acc.case()
    trace, info = run_case(case)
    bad, facts = check_trace(trace, maxa)
    if info["hang"]:
        bad.append(("C05/termination/hang", info["hang"]))
    if info["boundary_unknown"]:
        acc.ev("boundary_unknown", info["boundary_unknown"])
    for key, msg in bad[:3]:
        acc.violation(key, msg, case, pretty(trace)[-40:])
    # reach bookkeeping (from the facts the oracle established, not from the script)
    for f in ("completed_on_attempt_1", "completed_on_attempt_2", "completed_on_attempt_3",
              "completed_on_last_attempt", "immediate_retry_on_nak", "timeout_retry", "timeout_at_floor"):
        if facts.get(f):
            acc.hit(f)
    sends = facts.get("sends", {})
    for nn, n in facts.get("_exh", []):
        if nn == 0:
            acc.hit("exhausted_by_timeouts")
        elif nn >= n:
            acc.hit("exhausted_by_naks")
        else:
            acc.hit("exhausted_mixed")
    rx = [e for e in trace if e[0] == "rx"]
    tx_times = {}
    for e in trace:
        if e[0] == "tx" and e[2] is not None and e[2].kind == "DATA":
            tx_times.setdefault(round(e[1], 9), 0)
    for s in sends.values():
        if s["errs"] and s["att"]:
            acc.hit("error_while_pending")
        if s["errs"] and not s["att"] and s["outcome"] != "ret":
            acc.hit("queued_send_failed")
        if s.get("failed_at_call") and not s["att"] and s["outcome"] not in (None, "ret"):
            acc.hit("send_after_failure_raised")
        if s["rstacks"] and s["att"] and s["att"][0] < s["rstacks"][0]:
            acc.hit("rstack_while_pending")
    if case.get("error_while_idle") is not None:
        acc.hit("error_while_idle")
    if any(e[2] == "data" for e in rx):
        acc.hit("piggyback_ack")
    if any(r[0] in ("stale_old", "stale_far", "dstale") for snd in case["sends"] for r in snd):
        acc.hit("old_acknum_delivered")
    # recovery: a DATA frame with frmNum 0 written after an RSTACK that followed a failure
    seen_fail = False
    seen_rstack_after_fail = False
    for e in trace:
        if e[0] == "up_reset" or (e[0] == "rx" and e[2] == "err"):
            seen_fail = True
        if e[0] == "rx" and e[2] == "rstack" and seen_fail:
            seen_rstack_after_fail = True
        if e[0] == "ret" and seen_rstack_after_fail:
            acc.hit("recovery_after_rstack")
            break
    if facts.get("caller_cancelled_in_flight"):
        acc.hit("caller_cancelled_in_flight")
    if case.get("error_after") is not None and any(e[0] == "up_reset" and e[2] == REASON_EXHAUSTED for e in trace):
        acc.hit("error_after_host_side_failure")
    failed_before_rst = False
    for e in trace:
        if e[0] == "up_reset" or (e[0] == "rx" and e[2] == "err"):
            failed_before_rst = True
        if e[0] == "rx" and e[2] == "rstack":
            failed_before_rst = False
        if e[0] == "host_rst" and failed_before_rst:
            acc.hit("send_between_host_rst_and_rstack_on_failed_link")
    for snd in case["sends"]:
        for r in snd:
            if len(r) > 1 and r[1] in ("T-", "T+") and not info["boundary_unknown"]:
                if r[0] in ("ack", "dack"):
                    acc.hit("ack_at_boundary_before_timer" if r[1] == "T-" else "ack_at_boundary_after_timer")
                if r[0] in ("nak", "nakc"):
                    acc.hit("nak_at_boundary")
    if case.get("concurrent", len(case["sends"])) >= 3:
        acc.hit("three_sends_queued")
    retrans = any(len(s["att"]) > 1 for s in sends.values())
    if retrans or facts.get("exhausted") or facts.get("error_delivered"):
        acc.nontrivial(signature(trace))
    for e in trace:
        acc.ev(e[0] if e[0] != "rx" else "rx_" + e[2])
    return trace, bad


# -- case generation --------------------------------------------------------------------
def single_scripts(depth_full, sample_deeper, maxa, rnd):
    out = []
    for k in range(0, min(depth_full, maxa - 1) + 1):
        for pre in itertools.product(NT, repeat=k):
            for tm in TERM:
                out.append(list(pre) + [tm])
    for k in range(depth_full + 1, maxa):
        for _ in range(sample_deeper):
            out.append([rnd.choice(NT) for _ in range(k)] + [rnd.choice(TERM)])
    # exhaustion: only non-terminating reactions
    if depth_full >= maxa:
        out.extend(list(p) for p in itertools.product(NT, repeat=maxa))
    else:
        out.append([("sil",)] * maxa)
        out.append([("nak", "0")] * maxa)
        out.append([("nak", "T-")] * maxa)
        out.append([("stale", "0")] * maxa)
        for _ in range(sample_deeper):
            out.append([rnd.choice(NT) for _ in range(maxa)])
        # covering ack exactly at the last timeout instant
        out.append([("sil",)] * (maxa - 1) + [("ack", "T-")])
        out.append([("sil",)] * (maxa - 1) + [("ack", "T+")])
    return out


def gen_cases(tier, seed):
    import bellows.ash as ash

    maxa = int(ash.ACK_TIMEOUTS)
    rnd = random.Random(seed)
    cases = []
    if tier == "quick":
        singles = single_scripts(3, 600, maxa, rnd)
        nmulti = 8000
    else:
        singles = single_scripts(3, 3000, maxa, rnd) + [list(p) for p in itertools.product(NT[:7], repeat=maxa)]
        nmulti = 30000
    for i, s in enumerate(singles):
        cases.append({"sends": [s], "followup": "rst" if i % 3 == 1 else True})
        if i % 7 == 0:
            cases.append({"sends": [s, [("ack", "0")]], "concurrent": 1, "followup": False})
    for code in (0x51, 0x80):
        cases.append({"sends": [[("ack", "0")]], "error_while_idle": code, "followup": True})
    # an ERROR frame arriving after the host gave up on its own (timeouts / NAKs / mixed), and on a healthy link
    for code in (0x80, 0x52, 0x00, 0xFF, 0x51):
        for sc in ([("sil",)] * maxa, [("nak", "0")] * maxa, [("nak", "0"), ("sil",)] * maxa, [("ack", "0")]):
            cases.append({"sends": [sc[:maxa]], "error_after": code, "followup": True})
    # the caller is cancelled while its frame is in flight; another send follows
    for att in (1, 2, 3):
        for delay in (0.0, 0.05, 0.5, 1.0):
            for sc in ([("sil",), ("sil",), ("ack", "0")], [("ack", "d")], [("nak", "d"), ("ack", "d")], [("sil",)] * maxa):
                cases.append({"sends": [sc, [("ack", "0")], [("ack", "d")]], "concurrent": 3, "cancel": [[0, att, delay]], "followup": False})
                cases.append({"sends": [[("ack", "0")], sc, [("ack", "d")]], "concurrent": 3, "cancel": [[1, att, delay]], "followup": True})
    # long runs of promptly acknowledged sends drive the adaptive timeout to its floor; the
    # next silence must still be waited out for at least the protocol minimum
    for k in (12, 20, 30):
        for fin in ([("sil",), ("ack", "0")], [("sil",), ("sil",), ("ack", "T-")], [("nak", "0"), ("sil",), ("ack", "0")]):
            cases.append({"sends": [[("ack", "0")]] * k + [fin], "concurrent": 1, "followup": False})
    # ... and silences / acknowledgements at the last moment drive it to its ceiling; the next send then meets nothing but
    # silence (or stale acknowledgements, or NAKs at the last moment): the whole budget at the longest timeout
    for pre in ([[("sil",), ("ack", "L")]], [[("sil",), ("sil",), ("ack", "L")]], [[("sil",), ("ack", "L")]] * 2,
                [[("ack", "L")]] * 6, [[("sil",), ("ack", "L")], [("ack", "L")]]):
        for fin in ([("sil",)] * maxa, [("sil",)] * (maxa - 1) + [("ack", "T-")], [("stale", "T-")] * maxa,
                    ([("sil",), ("nak", "T-")] * maxa)[:maxa], [("sil",)] * (maxa - 1) + [("err", "T-", 0x51)]):
            for fu in (True, "rst"):
                cases.append({"sends": [list(x) for x in pre] + [list(fin)], "concurrent": 1, "followup": fu})
                cases.append({"sends": [list(x) for x in pre] + [list(fin), [("ack", "0")]], "concurrent": 1, "followup": fu})
    for _ in range(nmulti):
        n = rnd.choice([2, 2, 3, 3, 4])
        sends = []
        for _ in range(n):
            k = rnd.choice([0, 0, 0, 1, 1, 2, 3, maxa])
            sc = [rnd.choice(NT) for _ in range(min(k, maxa))]
            if k < maxa:
                sc.append(rnd.choice(TERM))
            sends.append(sc)
        c_ = {"sends": sends, "concurrent": rnd.choice([n, n, max(1, n - 1)]),
              "followup": rnd.choice([False, False, True, "rst"])}
        if rnd.random() < 0.3:
            c_["cancel"] = [[rnd.randrange(c_["concurrent"]), rnd.choice([1, 1, 2, 3]), rnd.choice([0.0, 0.05, 0.5, 1.0])]]
        if rnd.random() < 0.15:
            c_["error_after"] = rnd.choice([0x51, 0x52, 0x80, 0x00, 0xFF])
        if any(r[0] == "rstack" and r[2] == 0x0B for sc in sends for r in sc) and rnd.random() < 0.6:
            c_["send_on_reset"] = rnd.choice([1, 1, 2])
        cases.append(c_)
    # an RSTACK in mid-send with sends queued behind it, and the layer above sending again on the notification
    for dl in ("0", "d"):
        for nq in (1, 2):
            for q in ([("ack", "d")], [("sil",), ("ack", "d")], [("ack", "T-")]):
                for after in ([("ack", "0")], [("sil",), ("ack", "0")], []):
                    cases.append({"sends": [[("rstack", dl, 0x0B)] + after] + [list(q)] * nq, "concurrent": 1 + nq,
                                  "send_on_reset": 1, "followup": False})
    return cases


def shards(tier, seed):
    n = 32 if tier == "quick" else 96
    return [{"tier": tier, "seed": seed, "k": k, "n": n} for k in range(n)]


def run_shard(desc) -> Acc:
    import logging

    logmode.apply(desc)
    acc = Acc()
    from ..contracts import install_ash_contracts

    install_ash_contracts(acc)
    cases = gen_cases(desc["tier"], desc["seed"])
    for i, case in enumerate(cases):
        if i % desc["n"] != desc["k"]:
            continue
        trace, bad = judge_case(acc, case)
        if len(acc.samples) < 2 and len(trace) > 8:
            acc.sample({"case": case, "trace": pretty(trace)[:30]})
    return acc


def replay(case) -> Acc:
    acc = Acc()
    trace, bad = judge_case(acc, case)
    print("\n".join(pretty(trace)))
    return acc
