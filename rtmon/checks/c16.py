"""C16 - the configuration write never shrinks a table, honours overrides, sets the buffer count last.

Real EZSP.write_config in frame mode against a configuration-store NCP model, for every
protocol version, random current values per setting (below / equal to / above the default /
unreadable), random override sets drawn from the version's own schema keys (new in-range
value, or None = disabled) and per-setting accept / reject answers.  The oracle is a trace
specification over the set-configuration / set-value frames the NCP saw; the "a rejection does
not stop the rest" clause is decided by a twin run with all answers accepting.
"""
from __future__ import annotations

import logging
import random

from .. import vloop, ncpsim, ncpmodel
from ..runner import Acc
from .. import logmode
from ..contracts import install_status_contract

PROPERTY = "C16"
LEVEL = "exploration"
RULE = (
    "A case = (protocol version, current NCP value per setting from {below, equal to, above the "
    "tree's default, unreadable}, user override set over the version's schema keys with each "
    "override a new in-range value or None, set of settings the NCP rejects, each with a status code "
    "cycling through the whole status family of the reply).  Cases are seeded "
    "random with forced coverage of: no overrides, override of a setting with / without a default, "
    "disabling a setting with / without a default, override of the buffer count, every capacity "
    "setting above its default.  Non-trivial = at least one override or one current value differing "
    "from the default; distinct = distinct (version, current values, overrides, rejects)."
)
ASSUMPTIONS = [
    "capacity settings are those named *_TABLE_SIZE, *_CACHE_SIZE, CONFIG_MAX_END_DEVICE_CHILDREN and "
    "CONFIG_SUPPORTED_NETWORKS (fixed in the oracle)",
    "a setting counts as user-supplied exactly when the caller's dict names it with a non-None value; "
    "values the version schema fills in are the library's own defaults",
    "NCP model: plain store; an unreadable setting answers a read with an error status",
]
REACH = {t: ["versions_11", "cur_below", "cur_equal", "cur_above", "cur_unreadable", "override_default",
             "override_nondefault", "disabled_default", "disabled_nondefault", "rejected_then_accepted",
             "buffer_count_written", "buffer_count_overridden", "capacity_kept", "capacity_grown",
             "value_setting_written", "rejection_status_family_covered", "override_equal_to_library_default",
             "written_through_application", "written_again_by_application_reset"] for t in ("quick", "thorough")}
SHARD_TIMEOUT = {"quick": 900, "thorough": 3600}
PBC = "CONFIG_PACKET_BUFFER_COUNT"


_DEFAULTS_CACHE: dict = {}


def library_defaults(V, acc):
    """-> ({config name: default value}, {value name: default bytes}) of protocol version V, observed, not read from
    a table: what write_config({}) sets on an NCP that reports 0 for every setting (every default is then due).
    Independent of how the tree stores its defaults."""
    if V in _DEFAULTS_CACHE:
        return _DEFAULTS_CACHE[V]
    import bellows.types as t
    out = [{}, {}]

    async def probe(loop):
        st = await ncpsim.started(loop, V, acc, "C16")
        store = ncpmodel.ConfigStore()
        for m in t.EzspConfigId:
            store.values[int(m)] = 0
        for m in t.EzspValueId:
            store.ezsp_values[int(m)] = b"\x00"
        ncpmodel.install_config(st.ncp, store)
        await st.ezsp.write_config({})
        for kind, ident, val, _ok in store.log:
            if kind == "cfg":
                out[0][t.EzspConfigId(ident).name] = int(val)
            else:
                out[1][t.EzspValueId(ident).name] = bytes(val)

    vloop.run(probe)
    _DEFAULTS_CACHE[V] = (out[0], out[1])
    return _DEFAULTS_CACHE[V]


def is_capacity(name: str) -> bool:
    return name.endswith("_TABLE_SIZE") or name.endswith("_CACHE_SIZE") or name in (
        "CONFIG_MAX_END_DEVICE_CHILDREN", "CONFIG_SUPPORTED_NETWORKS")


def shards(tier, seed):
    import bellows.ezsp as e

    per = 1 if tier == "quick" else 4
    n = 400 if tier == "quick" else 3000
    out = [{"version": v, "part": p, "n": n, "seed": seed} for v in sorted(e.EZSP._BY_VERSION) for p in range(per)]
    out += [{"version": v, "part": "app", "n": 6 if tier == "quick" else 40, "seed": seed} for v in sorted(e.EZSP._BY_VERSION)]
    return out


def run_shard(desc) -> Acc:
    import voluptuous as vol

    import bellows.config as bconf
    import bellows.ezsp as e
    import bellows.ezsp.config as ecfg
    import bellows.types as t

    if desc.get("part") == "app":
        return run_app_shard(desc)
    logmode.apply(desc)
    acc = Acc()
    install_status_contract(acc)
    V = desc["version"]
    rnd = random.Random(desc["seed"] * 4099 + V * 13 + desc["part"])
    cls = e.EZSP._BY_VERSION[V]
    schema = cls.SCHEMAS[bconf.CONF_EZSP_CONFIG].schema
    keys = {}
    for k, validator in schema.items():
        keys[str(k.schema) if hasattr(k, "schema") else str(k)] = (k, validator)
    try:
        defaults, value_defaults = library_defaults(V, acc)  # name -> value
        defaults, value_defaults = dict(defaults), dict(value_defaults)
    except ncpsim.BringUpFailed:
        return acc
    schema_defaults = {}
    for name, (k, _) in keys.items():
        d = getattr(k, "default", vol.UNDEFINED)
        if d is not vol.UNDEFINED:
            try:
                schema_defaults[name] = d()
            except Exception:  # noqa: BLE001
                pass
    lib_defaults = dict(defaults)
    lib_defaults.update({k: v for k, v in schema_defaults.items() if v is not None})
    acc.reach["version:%d" % V] += 1

    def valid_value(name, around=None):
        k, validator = keys[name]
        cands = [0, 1, 2, 3, 5, 8, 10, 12, 16, 20, 26, 30, 32, 60, 64, 90, 100, 200, 254, 255, 1000, 7680]
        if around is not None:
            cands = [around + 1, around - 1, around + 7, around * 2, max(0, around // 2)] + cands
        rnd.shuffle(cands)
        for c in cands:
            try:
                vol.Schema({k: validator})({name: c})
                return c
            except Exception:  # noqa: BLE001
                continue
        return None

    cid = lambda name: int(t.EzspConfigId[name])  # noqa: E731
    cname = lambda num: t.EzspConfigId(num).name  # noqa: E731

    async def main(loop):
        st = await ncpsim.started(loop, V, acc, "C16")
        ez, ncp = st.ezsp, st.ncp

        async def one_run(current, overrides, rejects):
            store = ncpmodel.ConfigStore()
            for name, val in current.items():
                if val is None:
                    store.unreadable.add(cid(name))
                else:
                    store.values[cid(name)] = val
            for name in value_defaults:
                store.ezsp_values[int(t.EzspValueId[name])] = b"\x00"
            # every rejection carries its own status code, drawn from the whole status family of
            # this version's setConfigurationValue reply (the reason must not matter)
            store.reject = {cid(n): code for n, code in rejects.items()} if isinstance(rejects, dict) else {cid(n) for n in rejects}
            ncpmodel.install_config(ncp, store)
            exc = None
            try:
                await ez.write_config(dict(overrides))
            except BaseException as ex:  # noqa: BLE001
                exc = ex
            return store, exc

        rs_type = cls.COMMANDS["setConfigurationValue"][2]["status"]
        if rs_type.__name__ == "sl_Status":
            reject_codes = sorted(int(m) for m in rs_type if int(m) != 0) + [0x7777, 0xFFFFFFFF]
        else:
            reject_codes = list(range(1, 256))
        rnd.shuffle(reject_codes)
        codes_used = set()
        forced = ["none", "ov_default", "ov_nondefault", "dis_default", "dis_nondefault", "ov_pbc", "cap_above", "ov_cap", "ov_eq"]
        nondefault_keys = sorted(k for k in keys if k not in lib_defaults)
        default_keys = sorted(k for k in keys if k in lib_defaults)
        for it in range(desc["n"]):
            if it % desc.get("parts", 1) != 0:
                pass
            mode = forced[it % len(forced)] if it < 6 * len(forced) else "random"
            # ---- current values
            current = {}
            curkind = {}
            for name in set(list(lib_defaults) + list(keys)):
                if name not in keys and name not in lib_defaults:
                    continue
                d = lib_defaults.get(name)
                kind = rnd.choice(["below", "equal", "above", "unreadable"]) if d is not None else rnd.choice(["some", "unreadable"])
                if mode == "cap_above" and d is not None and is_capacity(name):
                    kind = "above"
                if kind == "unreadable":
                    current[name] = None
                elif kind == "below":
                    current[name] = max(0, d - rnd.choice([1, 2, d]))
                elif kind == "equal":
                    current[name] = d
                elif kind == "above":
                    current[name] = min(0xFFFF, d + rnd.choice([1, 4, 50]))
                else:
                    current[name] = rnd.choice([0, 3, 11, 40])
                curkind[name] = kind
            # ---- overrides
            overrides = {}
            npick = {"none": 0}.get(mode, rnd.choice([1, 1, 2, 3, 5]))
            pool = list(keys)
            picks = rnd.sample(pool, min(npick, len(pool))) if mode == "random" else []
            if mode == "ov_default" and default_keys:
                picks = [rnd.choice(default_keys)]
            if mode == "ov_nondefault" and nondefault_keys:
                picks = [rnd.choice(nondefault_keys)]
            if mode == "ov_cap":
                picks = [rnd.choice([k for k in keys if is_capacity(k)])]
            if mode == "ov_pbc" and PBC in keys:
                picks = [PBC] + ([rnd.choice(nondefault_keys)] if nondefault_keys else [])
            for name in picks:
                if rnd.random() < 0.3 and mode == "random":
                    overrides[name] = None
                else:
                    v = valid_value(name, lib_defaults.get(name))
                    if v is not None:
                        overrides[name] = v
            if mode == "ov_eq" or (mode == "random" and rnd.random() < 0.15):
                # the user supplies exactly the library's own default value (it is still the user's value)
                cands_ = [k_ for k_ in default_keys if k_ in keys]
                if cands_:
                    k_ = rnd.choice([c_ for c_ in cands_ if is_capacity(c_)] or cands_)
                    overrides[k_] = lib_defaults[k_]
                    if current.get(k_) is not None and is_capacity(k_):
                        current[k_] = min(0xFFFF, lib_defaults[k_] + rnd.choice([0, 1, 30]))
                    acc.hit("override_equal_to_library_default")
            if mode == "dis_default" and default_keys:
                overrides = {rnd.choice(default_keys): None}
            if mode == "dis_nondefault" and nondefault_keys:
                overrides = {rnd.choice(nondefault_keys): None}
            rej_pool = [n for n in set(list(lib_defaults) + list(overrides)) if n in keys or n in lib_defaults]
            rejects = set(rnd.sample(rej_pool, min(len(rej_pool), rnd.choice([0, 1, 2, 4])))) if it % 2 else set()
            rejects = {n_: reject_codes[(it * 5 + j_) % len(reject_codes)] for j_, n_ in enumerate(sorted(rejects))}
            for c_ in rejects.values():
                codes_used.add(c_)
            case = {"version": V, "current": current, "overrides": overrides, "rejects": rejects}
            acc.case()
            store, exc = await one_run(current, overrides, rejects)
            log = store.log
            bad = []
            if exc is not None:
                dis_nd = [n for n, v in overrides.items() if v is None and n not in defaults]
                key = "C16/disabled/call-fails-for-setting-without-default" if dis_nd and isinstance(exc, KeyError) else "C16/call/raised"
                bad.append((key, f"write_config({overrides}) raised {exc!r}"))
            cfg_sets = [(cname(i), v, ok) for (k, i, v, ok) in log if k == "cfg"]
            allsets = [(k, (cname(i) if k == "cfg" else int(i)), v, ok) for (k, i, v, ok) in log]
            names = [n for n, _, _ in cfg_sets]
            # 1. at most once
            for n in set(names):
                if names.count(n) > 1:
                    bad.append(("C16/once/setting-written-twice", f"{n} was set {names.count(n)} times: {cfg_sets}"))
            for n, v, ok in cfg_sets:
                user = n in overrides and overrides[n] is not None
                # 2. grow-only for capacity settings the user did not supply
                if not user and is_capacity(n) and current.get(n) is not None and v < current[n]:
                    who = "v7-schema-default-KEY_TABLE_SIZE" if (n == "CONFIG_KEY_TABLE_SIZE" and n in schema_defaults) else n
                    bad.append((f"C16/shrink/{who}",
                                f"{n} lowered from the reported {current[n]} to {v} although the user did not supply it"))
                # 4. disabled
                if n in overrides and overrides[n] is None:
                    bad.append(("C16/disabled/written", f"disabled setting {n} was written with {v}"))
                if not user and is_capacity(n) and current.get(n) is not None:
                    acc.hit("capacity_grown")
            # 3. user values written exactly
            for n, v in overrides.items():
                if v is None or exc is not None:
                    continue
                w = [x for x in cfg_sets if x[0] == n]
                if not w or w[0][1] != v:
                    bad.append(("C16/override/not-written-exactly", f"user value {n}={v} led to set frames {w}"))
            # 5. buffer count last
            if PBC in names:
                acc.hit("buffer_count_written")
                if PBC in overrides and overrides[PBC] is not None:
                    acc.hit("buffer_count_overridden")
                if allsets[-1][1] != PBC:
                    after = [x[1] for x in allsets[[x[1] for x in allsets].index(PBC) + 1:]]
                    nd = [a for a in after if isinstance(a, str) and a not in defaults]
                    key = "C16/order/non-default-override-after-PACKET_BUFFER_COUNT" if nd and len(nd) == len(after) else "C16/order/buffer-count-not-last"
                    bad.append((key, f"{PBC} was followed by {after}"))
            # 6. a rejection does not stop the rest: twin run with every answer accepting
            if rejects and exc is None:
                store2, exc2 = await one_run(current, overrides, {})
                a = sorted({(k, i) for (k, i, v, ok) in log})
                b = sorted({(k, i) for (k, i, v, ok) in store2.log})
                if exc2 is None and a != b:
                    bad.append(("C16/reject/remaining-settings-not-written",
                                f"with rejects {sorted(rejects)} the attempted settings were {a}, without rejects {b}"))
                rj = [ok for (_, _, _, ok) in log]
                if False in rj and True in rj[rj.index(False):]:
                    acc.hit("rejected_then_accepted")
            for key, msg in bad[:3]:
                acc.violation(key, msg, case, [repr(x) for x in allsets])
            # reach
            for n, kd in curkind.items():
                if n in lib_defaults and is_capacity(n):
                    acc.hit("cur_" + kd)
                    if kd in ("above", "equal") and n not in overrides and n not in names:
                        acc.hit("capacity_kept")
            for n, v in overrides.items():
                if v is None:
                    acc.hit("disabled_default" if n in lib_defaults else "disabled_nondefault")
                else:
                    acc.hit("override_default" if n in lib_defaults else "override_nondefault")
            if any(k == "val" for (k, _, _, _) in log):
                acc.hit("value_setting_written")
            if overrides or any(kd != "equal" for kd in curkind.values()):
                acc.nontrivial((V, tuple(sorted((k, v) for k, v in current.items() if k in lib_defaults)),
                                tuple(sorted(overrides.items(), key=repr)), tuple(sorted(rejects.items()))))
            if len(acc.samples) < 2 and overrides and rejects:
                acc.sample({"case": case, "set_frames": [repr(x) for x in allsets]})
        acc.ev("distinct_rejection_status_codes", len(codes_used))
        if len(codes_used) >= min(100, len(reject_codes)):
            acc.hit("rejection_status_family_covered")

    try:
        vloop.run(main)
    except ncpsim.BringUpFailed:
        pass
    return acc


def run_app_shard(desc) -> Acc:
    """The same trace specification with the configuration write driven the way it really is: through
    ControllerApplication.connect() (and _reset()) with the user's `ezsp_config`, on every version."""
    import bellows.config as bconf
    import bellows.ezsp as e
    import bellows.ezsp.config as ecfg
    import bellows.types as t
    from .. import appharness

    logmode.apply(desc)
    acc = Acc()
    install_status_contract(acc)
    V = desc["version"]
    rnd = random.Random(desc["seed"] * 77 + V)
    cls = e.EZSP._BY_VERSION[V]
    schema = cls.SCHEMAS[bconf.CONF_EZSP_CONFIG].schema
    known = {str(k.schema) if hasattr(k, "schema") else str(k) for k in schema}
    try:
        defaults = dict(library_defaults(V, acc)[0])
    except ncpsim.BringUpFailed:
        return acc
    cid = lambda name: int(t.EzspConfigId[name])  # noqa: E731
    cname = lambda num: t.EzspConfigId(num).name  # noqa: E731
    # (the multicast table size is answered by the multicast-table model, not by the store)
    caps = sorted(n for n in known if is_capacity(n) and n != "CONFIG_MULTICAST_TABLE_SIZE")
    import voluptuous as vol

    keyobj = {(str(k.schema) if hasattr(k, "schema") else str(k)): (k, v) for k, v in schema.items()}

    def valid(name, cands):
        k, validator = keyobj[name]
        for c in cands:
            try:
                vol.Schema({k: validator})({name: c})
                return c
            except Exception:  # noqa: BLE001
                continue
        return None

    async def one(loop, it):
        ap = appharness.AppStack(loop, V)
        appharness.preformed_network(ap.net)
        store = ap.ncp.state["config"]
        current = {}
        for n in caps:
            current[n] = rnd.choice([2, 12, 20, 26, 40, 64, 200])
            store.values[cid(n)] = current[n]
        overrides = {}
        if it % 3 == 1:
            for n in rnd.sample(caps, min(2, len(caps))):
                v_ = valid(n, rnd.sample([3, 9, 17, 2, 1, 30], 6))
                if v_ is not None:
                    overrides[n] = v_
        if it % 3 == 2 and PBC in known:
            v_ = valid(PBC, [0xFE, 0xFF, 200, 100, 64])
            if v_ is not None:
                overrides[PBC] = v_
            nd = [n for n in known if n not in defaults and n != PBC and n != "CONFIG_MULTICAST_TABLE_SIZE"]
            if nd:
                n_ = rnd.choice(sorted(nd))
                v_ = valid(n_, [5, 2, 1, 8, 16, 0])
                if v_ is not None:
                    overrides[n_] = v_
        case = {"version": V, "via": "ControllerApplication", "current": current, "overrides": overrides, "iteration": it}
        acc.case()
        try:
            await ap.connect(config_extra={bconf.CONF_EZSP_CONFIG: dict(overrides)}, start=False)
        except BaseException as ex:  # noqa: BLE001
            acc.violation("C16/call/raised", f"application connect (which writes the configuration) raised {ex!r}", case)
            return
        logs = [list(store.log)]
        if it % 2:
            n0 = len(store.log)
            try:
                # the configuration written again after a reset on the same connection: through the application's own
                # helper where it has one under this name, else by the same steps on the EZSP object
                helper = getattr(ap.app, "_reset", None)
                if helper is not None:
                    await helper()
                else:
                    import bellows.ezsp as ezsp_mod_

                    ez = next(v for v in vars(ap.app).values() if isinstance(v, ezsp_mod_.EZSP))
                    ez.stop_ezsp()
                    await ez.startup_reset()
                    await ez.write_config(ap.app.config[bconf.CONF_EZSP_CONFIG])
                logs.append(store.log[n0:])
                acc.hit("written_again_by_application_reset")
            except BaseException as ex:  # noqa: BLE001
                acc.violation("C16/call/raised", f"reset + configuration write on the same connection raised {ex!r}", case)
        for log in logs:
            sets = [(cname(i), v) for (k, i, v, ok) in log if k == "cfg"]
            names = [n for n, _ in sets]
            bad = []
            for n in set(names):
                if names.count(n) > 1:
                    bad.append(("C16/once/setting-written-twice", f"{n} set {names.count(n)} times"))
            for n, v in sets:
                user = n in overrides
                if not user and is_capacity(n) and current.get(n) is not None and v < current[n]:
                    who = "v7-schema-default-KEY_TABLE_SIZE" if n == "CONFIG_KEY_TABLE_SIZE" and V == 7 else n
                    bad.append((f"C16/shrink/{who}", f"{n} lowered from the reported {current[n]} to {v} although the user did not supply it "
                                "(configuration written through the application)"))
                if user and v != overrides[n]:
                    bad.append(("C16/override/not-written-exactly", f"user value {n}={overrides[n]} written as {v}"))
                if n in current:
                    current[n] = v
            for n, v in overrides.items():
                if n not in names:
                    bad.append(("C16/override/not-written-exactly", f"user value {n}={v} was not written"))
            allsets = [(k, (cname(i) if k == "cfg" else int(i))) for (k, i, v, ok) in log]
            if PBC in names and allsets and allsets[-1][1] != PBC:
                bad.append(("C16/order/buffer-count-not-last", f"{PBC} was followed by {[x[1] for x in allsets[[x[1] for x in allsets].index(PBC) + 1:]]}"))
            for key, msg in bad[:3]:
                acc.violation(key, msg, case, [repr(x) for x in sets])
        acc.hit("written_through_application")
        acc.nontrivial((V, "app", it, tuple(sorted(current.items())), tuple(sorted(overrides.items()))))
        if len(acc.samples) < 1:
            acc.sample({"case": case, "set_frames": [repr(x) for x in logs[0]][:30]})

    for it in range(desc["n"]):
        async def main(loop, it=it):
            await one(loop, it)
        try:
            vloop.run(main)
        except vloop.Deadlock:
            acc.violation("C16/hang", "loop ran dry while the application wrote the configuration", {"version": V, "iteration": it})
    return acc


def post_merge(reach, tier, events=None):
    vs = [k for k in reach if k.startswith("version:")]
    if len(vs) == 11:
        reach["versions_11"] = 11
    for k in vs:
        del reach[k]


def replay(case) -> Acc:
    print("replay: re-running the version's shard (cases are generated from the seed)")
    return run_shard({"version": case["version"], "part": 0, "n": 400, "seed": 0})
