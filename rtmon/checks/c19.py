"""C19 - the watchdog requests a restart only after the tolerated run of consecutive failures.

ControllerApplication._watchdog_feed (the hook zigpy's watchdog loop calls) on the real
application + real EZSP in frame mode.  Every outcome string over {success, timeout, EZSP
error} up to the tier's length is played (strings are separated by a successful feed, which
by the property clears the count, so every string is observed from a clean state); on
protocol versions above 4 the failure is placed in either of the two commands of a feed.
Oracle: a consecutive-failure counter.
"""
from __future__ import annotations

import asyncio
import itertools
import logging
import random

from .. import vloop, ncpsim, ncpmodel, appharness
from ..runner import Acc
from .. import logmode
from ..contracts import install_status_contract

PROPERTY = "C19"
LEVEL = "exploration"
RULE = (
    "A case = (protocol version, outcome string).  Outcome alphabet: success; timeout (the NCP never "
    "answers, 10 s virtual); EZSP error (invalidCommand reply, or the EZSP layer stopped); on versions "
    "> 4 each failure is placed in the counter read or in the free-buffer read.  All strings over "
    "{success, failure} up to the tier's length with the failure kind rotated, all strings over the "
    "full alphabet up to a shorter length, and a 400-feed all-success run across the counter-clear "
    "period.  Non-trivial = the string contains at least one failure; distinct = distinct (version, "
    "string)."
)
ASSUMPTIONS = [
    "the feed hook is ControllerApplication._watchdog_feed(); MAX_WATCHDOG_FAILURES and the "
    "counter-clear period are read from the tree",
    "zigpy.util.Requests shim (rtmon/appharness.py); NCP model of DESIGN Appendix A",
    "the period rule is checked on an all-success run from a fresh application (whether failed feeds "
    "count towards the period is not specified)",
]
EXHAUSTIVE = {"quick": "success/failure strings up to length 8; full-alphabet strings up to length 4",
              "thorough": "success/failure strings up to length 10; full-alphabet strings up to length 5"}
REACH = {t: ["raising_feed", "reset_by_success_at_each_run_length", "failure_in_first_command",
             "failure_in_second_command", "period_boundary_crossed", "v4_nop", "timeout_failure",
             "invalid_command_failure", "stopped_failure", "raise_twice_in_a_row", "closed_failure",
             "few_free_buffers_reported", "ncp_restarted_between_feeds", "free_buffer_read_answered_with_an_error_status"] for t in ("quick", "thorough")}
SHARD_TIMEOUT = {"quick": 900, "thorough": 3600}


def shards(tier, seed):
    vs = [4, 5, 8, 13, 14] if tier == "quick" else list(range(4, 15))
    out = []
    for v in vs:
        out.append({"version": v, "part": "strings", "lsf": 8 if tier == "quick" else 10,
                    "lfull": 4 if tier == "quick" else 5, "seed": seed, "last": True})
        out.append({"version": v, "part": "period", "seed": seed})
    return out


def run_shard(desc) -> Acc:
    import bellows.zigbee.application as A
    from bellows.exception import EzspError

    logmode.apply(desc)
    acc = Acc()
    install_status_contract(acc)
    V = desc["version"]
    MAXF = int(A.MAX_WATCHDOG_FAILURES)
    PERIOD = int(A.EZSP_COUNTERS_CLEAR_IN_WATCHDOG_PERIODS)
    rnd = random.Random(desc["seed"] + V)

    async def main(loop):
        ap = await appharness.started_app(loop, V, acc, "C19")
        app, ncp = ap.app, ap.ncp
        ez = appharness.ezsp_of(app)
        plan = {"first": None, "second": None}
        first_names = ("nop",) if V == 4 else ("readCounters", "readAndClearCounters")

        def script(name, args, seq):
            if name in first_names and plan["first"]:
                k = plan["first"]
                plan["first"] = None
                return [("none",)] if k == "T" else [("invalid", 0x36)]
            if name == "getValue" and plan["second"] and int(args["valueId"]) == 0x03:
                k = plan["second"]
                plan["second"] = None
                return [("none",)] if k == "T" else [("invalid", 0x36)]
            if name == "getValue" and plan.get("gv_status") and int(args["valueId"]) == 0x03:
                # the free-buffer read is answered, with a status other than success and no value: the keep-alive
                # itself succeeded and nothing timed out or raised - still a successful feed
                kind = plan.pop("gv_status")
                return [("reply", [ncpmodel.status(ncp, "getValue", kind), b""])]
            return None

        ncp.script = script
        consec = 0
        feeds = 0
        closed = [False]
        run_lengths_reset = set()
        prev_raised = False

        async def feed(sym, case):
            """sym: 'S' | ('T'|'E', 1|2) | 'X'"""
            nonlocal consec, feeds, prev_raised
            feeds += 1
            acc.ev("feeds")
            plan["first"] = plan["second"] = None
            plan.pop("gv_status", None)
            if sym in ("S", "R") and V != 4 and rnd.random() < 0.3:
                plan["gv_status"] = rnd.choice(["invalid_id", "oom", "fatal", "invalid_value", "invalid_call"])
                acc.hit("free_buffer_read_answered_with_an_error_status")
            # what the NCP reports as free buffers varies from feed to feed (incl. nearly none)
            ap.net.free_buffers = rnd.choice([0, 1, 3, 7, 8, 0x20, 0xF0, 0xFF])
            if ap.net.free_buffers < 8:
                acc.hit("few_free_buffers_reported")
            if sym == "C":
                if not closed[0]:
                    closed[0] = True
                    ez.close()  # what enter_failed_state() does; the watchdog keeps feeding afterwards
                acc.hit("closed_failure")
            if sym == "R":
                # the application restarts the NCP between two feeds (what it does after a restored network or
                # a failure): stop, start-up reset with the version negotiated anew, configuration written again -
                # the EZSP object stays, its protocol handler is a new one.  The feed itself is then a success.
                try:
                    ez.stop_ezsp()
                    await ez.startup_reset()
                    await ez.write_config({})
                    acc.hit("ncp_restarted_between_feeds")
                except BaseException as ex:  # noqa: BLE001
                    acc.violation("C19/setup/restart-failed", f"restarting the NCP between feeds failed: {ex!r}", case)
                sym = "S"
            if sym == "X":
                ez.stop_ezsp()
                acc.hit("stopped_failure")
            elif sym == "C":
                pass
            elif sym != "S":
                plan["first" if sym[1] == 1 else "second"] = sym[0]
                acc.hit("failure_in_first_command" if sym[1] == 1 else "failure_in_second_command")
                acc.hit("timeout_failure" if sym[0] == "T" else "invalid_command_failure")
            n0 = len(ncp.requests)
            raised = None
            try:
                await app._watchdog_feed()
            except asyncio.CancelledError:
                raise
            except Exception as ex:  # noqa: BLE001 - "a feed raises - asking zigpy to restart the radio": which exception is open
                raised = ex
                raised = ex
            if sym == "X":
                ez.start_ezsp()
            cmds = [r[1] for r in ncp.requests[n0:]]
            fail = sym != "S"
            if fail:
                consec += 1
            else:
                if consec:
                    run_lengths_reset.add(min(consec, MAXF + 2))
                consec = 0
            want = fail and consec > MAXF
            if bool(raised) != want:
                key = "C19/raise/too-early" if raised else "C19/raise/missing"
                acc.violation(key, f"feed #{feeds} ({sym}) {'raised ' + repr(raised) if raised else 'returned'} with "
                              f"{consec} consecutive failure(s); the tolerated maximum is {MAXF}", case)
            if raised:
                acc.hit("raising_feed")
                if prev_raised:
                    acc.hit("raise_twice_in_a_row")
            prev_raised = bool(raised)
            # keep-alive command identity
            if sym not in ("X", "C"):
                if V == 4:
                    # the keep-alive is a no-op command: it comes first, and no counter read is made on v4 (further
                    # diagnostic reads after it are not the keep-alive)
                    if cmds[:1] != ["nop"] or any(c_ in ("readCounters", "readAndClearCounters") for c_ in cmds):
                        acc.violation("C19/keepalive/not-nop-on-v4", f"v4 feed issued {cmds}", case)
                    else:
                        acc.hit("v4_nop")
                else:
                    if not cmds or cmds[0] not in ("readCounters", "readAndClearCounters"):
                        acc.violation("C19/keepalive/not-a-counter-read", f"v{V} feed issued {cmds}", case)
            return cmds

        if desc["part"] == "period":
            clears = []
            for k in range(1, 401):
                # (a few isolated failures on the way: they never add up to a run)
                if k % 37 == 5:
                    await feed(("T", 1), {"version": V, "part": "period", "feed": k})
                    continue
                cmds = await feed("S", {"version": V, "part": "period", "feed": k})
                if V != 4 and cmds and cmds[0] == "readAndClearCounters":
                    clears.append(k)
                acc.case()
            if V != 4:
                want = [k for k in range(1, 401) if k % PERIOD == 0 and k % 37 != 5]
                if clears != want:
                    acc.violation("C19/keepalive/clear-period", f"read-and-clear on feeds {clears}, expected {want} (period {PERIOD})",
                                  {"version": V, "part": "period"})
                elif want:
                    acc.hit("period_boundary_crossed")
            else:
                acc.hit("period_boundary_crossed")
            acc.nontrivial((V, "period"))
            acc.nontrivial((V, "period", 2))
            acc.sample({"version": V, "all_success_feeds": 400, "read_and_clear_on": clears})
            return

        kinds = [("T", 1), ("E", 1), "X"] if V == 4 else [("T", 1), ("T", 2), ("E", 1), ("E", 2), "X"]

        async def play(string, label):
            case = {"version": V, "string": [repr(s) for s in string], "label": label}
            acc.case()
            for s in string:
                await feed(s, case)
            await feed("S", case)  # separator: clears the count
            if any(s != "S" for s in string):
                acc.nontrivial((V, tuple(map(repr, string))))

        ki = 0
        for L in range(1, desc["lsf"] + 1):
            for bits in itertools.product("SF", repeat=L):
                string = []
                for b in bits:
                    if b == "S":
                        string.append("S")
                    else:
                        string.append(kinds[ki % len(kinds)])
                        ki += 1
                await play(string, "sf")
        alpha = ["S"] + kinds
        for L in range(1, desc["lfull"] + 1):
            for string in itertools.product(alpha, repeat=L):
                await play(list(string), "full")
        # histories with a restart of the NCP in them (same EZSP object, new protocol handler of the same version)
        for k in range(0, MAXF + 1):
            for kind in kinds[:2]:
                await play([kind] * k + ["R"] + ["S"] * (MAXF + 2), "restart")
                await play(["R"] + [kind] * MAXF + ["R", "S", kind], "restart")
        if run_lengths_reset >= set(range(1, MAXF + 2)):
            acc.hit("reset_by_success_at_each_run_length")
        if V == 4 and desc.get("last"):
            # the EZSP object is closed for good (NCP failure was handled) while the watchdog keeps feeding:
            # each feed fails with an EZSP error and the run is counted like any other (v4: the keep-alive
            # goes through the EZSP command gate; on later versions a closed gateway is outside the property)
            case = {"version": V, "string": ["S", "S"] + ["C"] * (MAXF + 3), "label": "closed"}
            acc.case()
            for s_ in ["S", "S"] + ["C"] * (MAXF + 3):
                await feed(s_, case)
            acc.nontrivial((V, "closed"))
        acc.sample({"version": V, "example_string": ["F"] * (MAXF + 1) + ["S"], "expected": "raise on failure %d only" % (MAXF + 1)})

    try:
        vloop.run(main)
    except ncpsim.BringUpFailed:
        pass
    return acc


def replay(case) -> Acc:
    return run_shard({"version": case["version"], "part": case.get("part", "strings") if case.get("part") == "period" else "strings",
                      "lsf": 6, "lfull": 3, "seed": 0})
