"""C14 - network settings survive a write / read round trip through the NCP.

ControllerApplication (Requests shim) + real EZSP in frame mode + the stateful NCP model of
DESIGN Appendix A (network parameters, security state, key / child / address tables, frame
counters, NV3 and MFG tokens, EUI64, stack-status events, reset semantics), protocol versions
4..14 x {rewritable-EUI64 NV3 token present, absent} x random network / node information.
write_network_info(...) is followed by load_network_info(load_devices=True); what is read
back is compared with what was written, and the setInitialSecurityState request the NCP saw
is decoded at byte level and compared with the supplied keys and flags.
"""
from __future__ import annotations

import asyncio
import logging
import random

from .. import ezspref as X
from .. import vloop, ncpsim, ncpmodel, appharness
from ..runner import Acc
from .. import logmode
from ..contracts import install_status_contract

PROPERTY = "C14"
LEVEL = "exploration"
RULE = (
    "A case = (protocol version, NV3 restored-EUI64 token present / absent, starting NCP state: blank or "
    "an existing network, random NetworkInfo / NodeInfo: PAN id, extended PAN id, channel, channel mask, "
    "update id, network key + sequence + frame counter, trust-centre link key with hashed form present or "
    "absent, 0..N link keys, 0..M children with / without known addresses, node IEEE equal to / different "
    "from the NCP's, trust-centre address known / unknown).  Non-trivial = every case (random content); "
    "distinct = distinct (version, capability, generated content)."
)
ASSUMPTIONS = [
    "NCP model of DESIGN Appendix A: plain storage semantics; getKey(TC link key) returns the stored "
    "preconfigured key; a coordinator's trust-centre address reads back as its own EUI64",
    "generator keeps the round trip defined: link keys <= key-table size after write_config; for versions "
    "> 4 the TC link key is the well-known key (its hashed form random or absent); children without a "
    "known NWK address are not expected back; frame counter expected back for versions >= 5, children "
    "for versions >= 9; a link key the NCP refuses is not expected back, every other one is; the NCP keeps "
    "its frame counters across leaveNetwork (they are only cleared by tokenFactoryReset)",
    "EmberInitialSecurityState byte layout: bitmask u16, preconfigured key 16, network key 16, sequence u8, "
    "TC EUI64 8; flag values 0x0100 / 0x0200 / 0x0040 / 0x0084",
]
REACH = {t: ["versions_11", "nv3_present", "nv3_absent", "link_keys_written", "children_written", "hashed_present",
             "hashed_absent", "tc_address_unknown", "eui64_rewritten", "eui64_not_writable", "start_blank",
             "start_existing", "several_restores_on_one_ncp", "restore_again_for_the_restored_address", "read_modify_write_restore", "frame_counter_checked", "children_checked", "security_state_decoded",
             "link_key_refused_midway", "zero_frame_counter_over_existing_network", "boundary_key_values",
             "start_existing_with_link_keys_and_children_of_its_own"]
         for t in ("quick", "thorough")}
SHARD_TIMEOUT = {"quick": 900, "thorough": 3600}
WELL_KNOWN = b"ZigBeeAlliance09"
UNKNOWN = b"\xff" * 8


def shards(tier, seed):
    n = 16 if tier == "quick" else 150
    return [{"version": v, "nv3": nv3, "n": n, "seed": seed} for v in range(4, 15) for nv3 in (True, False)]


def run_shard(desc) -> Acc:
    import zigpy.state
    import zigpy.types as zt
    import zigpy.zdo.types as zdo_t

    logmode.apply(desc)
    acc = Acc()
    install_status_contract(acc)
    V, nv3 = desc["version"], desc["nv3"]
    rnd = random.Random(desc["seed"] * 8191 + V * 2 + int(nv3))
    acc.reach["version:%d" % V] += 1
    acc.hit("nv3_present" if nv3 else "nv3_absent")

    async def one(loop, it):
        ap = appharness.AppStack(loop, V)
        ap.net.nv3_token = (ncpmodel.NV3_CREATOR_RESTORED_EUI64 if rnd.random() < 0.5 else ncpmodel.NV3_NVM3_RESTORED_EUI64) if nv3 else None
        existing = it % 2 == 1
        if existing:
            stale = [0, 2, 3][(it // 2) % 3]
            appharness.preformed_network(ap.net, stale_tables=stale)
            acc.hit("start_existing")
            if stale:
                acc.hit("start_existing_with_link_keys_and_children_of_its_own")
        else:
            acc.hit("start_blank")
        case = {"version": V, "nv3": nv3, "iteration": it, "seed": desc["seed"], "start": "existing" if existing else "blank"}
        try:
            await ap.connect(start=False)
        except BaseException as ex:  # noqa: BLE001
            acc.violation("C14/setup/fault-free-connect-failed", repr(ex), case)
            return
        app, ncp, net = ap.app, ap.ncp, ap.net
        case0, existing0 = case, existing
        prev = {}  # what the previous round trip on this application read back (for read-modify-write restores)

        async def round_trip(rep):
            # the address the NCP has once a restored (NV3) address is wiped: what a write starts from
            cur_now = bytes(net.eui64())
            cur_eui = bytes(net.mfg[ncpmodel.MFG_CUSTOM_EUI_64]) if net.mfg[ncpmodel.MFG_CUSTOM_EUI_64] != ncpmodel.FF8 else bytes(net.eui64_factory)
            log0 = len(net.log)
            net.refuse_partners.clear()
            case = dict(case0, restore_number=rep + 1)
            existing = existing0 or rep > 0
            # ---- generate
            kts = 12 if V == 7 else 4
            nkeys = rnd.choice([0, 1, 2, kts])
            nchild = rnd.choice([0, 1, 3, 6])
            hashed = rnd.randbytes(16).hex() if rnd.random() < 0.6 else None
            same_ieee = rnd.random() < 0.4
            node_ieee = cur_eui if same_ieee else bytes([0xC0 + it % 16]) + rnd.randbytes(7)
            if rep > 0 and rnd.random() < 0.6:
                # a further restore for the address the NCP runs with right now (possibly a restored one)
                node_ieee = cur_now
                same_ieee = node_ieee == cur_eui
                if not same_ieee:
                    acc.hit("restore_again_for_the_restored_address")
            tc_unknown = rnd.random() < 0.3
            tc_key = WELL_KNOWN if V > 4 else rnd.randbytes(16)
            E = lambda b: zt.EUI64.deserialize(bytes(b))[0]  # noqa: E731
            K = lambda b: zt.KeyData.deserialize(bytes(b))[0]  # noqa: E731
            special_keys = [bytes(16), b"\xff" * 16, bytes(range(16)), WELL_KNOWN]
            nwk_key = rnd.choice([rnd.randbytes(16)] * 3 + special_keys[:3])
            link_keys = [(rnd.choice([rnd.randbytes(16)] * 4 + special_keys), bytes([0xD0 + i]) + rnd.randbytes(7)) for i in range(nkeys)]
            if nwk_key in special_keys or any(k_ in special_keys for k_, _ in link_keys):
                acc.hit("boundary_key_values")
            refused = None
            if nkeys >= 2 and rnd.random() < 0.4:
                # the NCP refuses one link key that is not the last one (whatever its reason): the
                # keys it does accept - before and after - must still make the round trip
                refused = link_keys[rnd.randrange(nkeys - 1)][1]
                net.refuse_partners[refused] = rnd.choice(["invalid_call", "fatal", "bad_argument"])
            children = [bytes([0xE0 + i]) + rnd.randbytes(7) for i in range(nchild)]
            child_addr = {c: rnd.randrange(1, 0xFFF0) for i, c in enumerate(children) if i % 3 != 2}
            w = dict(pan_id=rnd.choice([1, 0xFFFE - 1, 0x0000, rnd.randrange(1, 0xFFFE), rnd.randrange(1, 0xFFFE)]),
                     ext=rnd.choice([rnd.randbytes(8), rnd.randbytes(8), bytes(8), bytes([1]) + bytes(7)]), channel=rnd.randrange(11, 27),
                     mask=rnd.choice([0x07FFF800, 1 << 15, (1 << 11) | (1 << 25), 1 << 26, 1 << 11]), update_id=rnd.choice([0, 255, rnd.randrange(256)]),
                     nwk_key=nwk_key, nwk_seq=rnd.choice([0, 255, rnd.randrange(256)]),
                     nwk_fc=rnd.choice([0, 0, 1, 0xFFFFFFFF, rnd.getrandbits(32), rnd.getrandbits(32)]),
                     tc_fc=rnd.choice([0, rnd.getrandbits(32)]))
            rmw = bool(prev) and rnd.random() < 0.5
            if rmw:
                # read - modify - write: the caller changes one setting in what the application itself read back a
                # moment ago and restores that; the objects handed in share their containers (key table, children,
                # addresses) with the application's own state
                net.refuse_partners.clear()
                refused = None
                w = dict(prev["w"], channel=rnd.randrange(11, 27))
                nwk_key, link_keys, children, child_addr = prev["nwk_key"], list(prev["link_keys"]), list(prev["child_addr"]), dict(prev["child_addr"])
                hashed, node_ieee, tc_key, tc_unknown = prev["hashed"], prev["node_ieee"], prev["tc_key"], False
                same_ieee = node_ieee == cur_eui
                acc.hit("read_modify_write_restore")
            ni = zigpy.state.NetworkInfo(
                extended_pan_id=zt.ExtendedPanId.deserialize(w["ext"])[0], pan_id=zt.PanId(w["pan_id"]),
                nwk_update_id=zt.uint8_t(w["update_id"]), nwk_manager_id=zt.NWK(0x0000), channel=zt.uint8_t(w["channel"]),
                channel_mask=zt.Channels(w["mask"]), security_level=zt.uint8_t(5),
                network_key=zigpy.state.Key(key=K(nwk_key), tx_counter=w["nwk_fc"], seq=w["nwk_seq"]),
                tc_link_key=zigpy.state.Key(key=K(tc_key), tx_counter=w["tc_fc"], partner_ieee=E(UNKNOWN if tc_unknown else node_ieee)),
                key_table=[zigpy.state.Key(key=K(k), partner_ieee=E(p), tx_counter=0, rx_counter=0) for k, p in link_keys],
                children=[E(c) for c in children], nwk_addresses={E(c): zt.NWK(a) for c, a in child_addr.items()},
                stack_specific={"ezsp": {"hashed_tclk": hashed}} if hashed else {}, source="rtmon")
            no = zigpy.state.NodeInfo(nwk=zt.NWK(0x0000), ieee=E(node_ieee), logical_type=zdo_t.LogicalType.Coordinator)
            if rmw:
                ni = app.state.network_info.replace(channel=zt.uint8_t(w["channel"]))
                no = app.state.node_info
                case["read_modify_write"] = True
            case["written"] = {k: (v.hex() if isinstance(v, bytes) else v) for k, v in w.items()}
            case["written"].update(link_keys=[(k.hex(), p.hex()) for k, p in link_keys], refused_partner=refused.hex() if refused else None, children=[c.hex() for c in children],
                                   child_addr={c.hex(): a for c, a in child_addr.items()}, hashed=hashed, node_ieee=node_ieee.hex(),
                                   tc_unknown=tc_unknown, tc_key=tc_key.hex(), ncp_eui64=cur_eui.hex())
            acc.case()
            n0 = len(ncp.requests)
            # ---- write, then read back
            try:
                await app.write_network_info(network_info=ni, node_info=no)
            except BaseException as ex:  # noqa: BLE001
                import traceback

                acc.violation("C14/write/raised", f"write_network_info raised {ex!r}", case,
                              [(r[1], r[5]) for r in ncp.requests[n0:]][-25:] + traceback.format_exc().splitlines()[-6:])
                return False
            try:
                await app.load_network_info(load_devices=True)
            except BaseException as ex:  # noqa: BLE001
                import traceback

                acc.violation("C14/read/raised", f"load_network_info raised {ex!r}", case,
                              [(r[1], r[5]) for r in ncp.requests[n0:]][-25:] + traceback.format_exc().splitlines()[-6:])
                return False
            r = app.state.network_info
            rn = app.state.node_info
            bad = []

            def cmp(name, got, want):
                if got != want:
                    bad.append((f"C14/roundtrip/{name}", f"{name}: read back {got!r}, written {want!r}"))

            cmp("pan_id", int(r.pan_id), w["pan_id"])
            cmp("extended_pan_id", bytes(r.extended_pan_id.serialize()), w["ext"])
            cmp("channel", int(r.channel), w["channel"])
            cmp("channel_mask", int(r.channel_mask), w["mask"])
            cmp("nwk_update_id", int(r.nwk_update_id), w["update_id"])
            cmp("network_key", bytes(r.network_key.key.serialize()), nwk_key)
            cmp("network_key_seq", int(r.network_key.seq), w["nwk_seq"])
            wrote_eui = (not same_ieee) and nv3 and V >= 9  # the NV3 token interface exists from v9 on
            exp_ieee = node_ieee if (same_ieee or wrote_eui) else cur_eui
            if wrote_eui:
                acc.hit("eui64_rewritten")
            elif not same_ieee:
                acc.hit("eui64_not_writable")
            cmp("node_ieee", bytes(rn.ieee.serialize()), exp_ieee)
            rh = r.stack_specific.get("ezsp", {}).get("hashed_tclk")
            if V > 4:
                cmp("tc_link_key", bytes(r.tc_link_key.key.serialize()), WELL_KNOWN)
                if hashed:
                    cmp("hashed_tclk", rh, hashed)
                    acc.hit("hashed_present")
                else:
                    acc.hit("hashed_absent")
                    if not rh or len(rh) != 32:
                        bad.append(("C14/roundtrip/hashed_tclk", f"no hashed link key in stack-specific data after the round trip: {rh!r}"))
                    elif bytes.fromhex(rh) != net.security["preconfigured"]:
                        bad.append(("C14/roundtrip/hashed_tclk", "hashed link key read back differs from the key stored in the NCP"))
            else:
                cmp("tc_link_key", bytes(r.tc_link_key.key.serialize()), tc_key)
                if rh:
                    bad.append(("C14/roundtrip/hashed_tclk", "v4 read back a hashed link key"))
            got_keys = sorted((bytes(k.key.serialize()), bytes(k.partner_ieee.serialize())) for k in r.key_table)
            cmp("link_key_table", [(a.hex(), b.hex()) for a, b in got_keys], [(a.hex(), b.hex()) for a, b in sorted(link_keys) if b != refused])
            if link_keys:
                acc.hit("link_keys_written")
            if refused is not None and any(x[0] == "link_key_refused" for x in net.log[log0:]):
                acc.hit("link_key_refused_midway")
            if V >= 5:
                cmp("network_key_frame_counter", int(r.network_key.tx_counter), w["nwk_fc"])
                acc.hit("frame_counter_checked")
                if w["nwk_fc"] == 0 and existing:
                    acc.hit("zero_frame_counter_over_existing_network")
            if V >= 9:
                want_children = sorted(c.hex() for c in child_addr)
                cmp("children", sorted(bytes(c.serialize()).hex() for c in r.children), want_children)
                got_addr = {bytes(k.serialize()).hex(): int(v) for k, v in r.nwk_addresses.items()}
                for c, a in child_addr.items():
                    if got_addr.get(c.hex()) != a:
                        bad.append(("C14/roundtrip/child_address", f"child {c.hex()}: address {got_addr.get(c.hex())}, written {a}"))
                if child_addr:
                    acc.hit("children_written")
                acc.hit("children_checked")
            # ---- the security state the NCP saw, decoded at byte level
            sis = [x for x in net.log[log0:] if x[0] == "setInitialSecurityState"]
            if len(sis) != 1:
                bad.append(("C14/security/state-not-sent-once", f"setInitialSecurityState seen {len(sis)} times"))
            else:
                raw = sis[0][1]
                b = raw[len(X.request_header(V, 0, 0)):]
                if len(b) != 43:
                    bad.append(("C14/security/state-length", f"security state body has {len(b)} bytes"))
                else:
                    bm = b[0] | b[1] << 8
                    pre, nk, sq, tce = b[2:18], b[18:34], b[34], b[35:43]
                    tc_known = not (tc_unknown and wrote_eui)
                    exp_pre = (bytes.fromhex(rh) if (V > 4 and rh) else tc_key)
                    if V > 4 and hashed:
                        exp_pre = bytes.fromhex(hashed)
                    checks = [
                        ("have-preconfigured-key-flag", bool(bm & 0x0100), True),
                        ("have-network-key-flag", bool(bm & 0x0200), True),
                        ("have-trust-center-eui64-flag", bool(bm & 0x0040), tc_known),
                        ("hashed-link-key-flag", (bm & 0x0084) == 0x0084 if V > 4 else bool(bm & 0x0080), V > 4),
                        ("network-key", nk.hex(), nwk_key.hex()),
                        ("network-key-sequence", sq, w["nwk_seq"]),
                        ("preconfigured-key", pre.hex(), exp_pre.hex()),
                    ]
                    if tc_known:
                        checks.append(("trust-center-eui64", tce.hex(), (exp_ieee if not tc_unknown else exp_ieee).hex()))
                    else:
                        acc.hit("tc_address_unknown")
                    for nm, got, want in checks:
                        if got != want:
                            bad.append((f"C14/security/{nm}", f"security state sent to the NCP: {nm} is {got!r}, expected {want!r} (bitmask {bm:#06x})"))
                    acc.hit("security_state_decoded")
            for key, msg in bad[:4]:
                acc.violation(key, msg, case, [(r_[1], r_[5]) for r_ in ncp.requests[n0:]][:80])
            prev.clear()
            if not bad:
                prev.update(w=dict(w, nwk_fc=int(r.network_key.tx_counter), tc_fc=int(r.tc_link_key.tx_counter)), nwk_key=nwk_key,
                            link_keys=[(k_, p_) for k_, p_ in link_keys if p_ != refused], child_addr=dict(child_addr) if V >= 9 else {},
                            hashed=(rh if V > 4 else None), node_ieee=exp_ieee, tc_key=tc_key)
            acc.nontrivial((V, nv3, it, rep, w["pan_id"], nwk_key, rmw))
            if len(acc.samples) < 1:
                acc.sample({"case": case, "commands_seen_by_ncp": [r_[1] for r_ in ncp.requests[n0:]][:70]})

            return True

        for rep in range(1 + (it % 3 == 0) + (it % 6 == 0) + (it % 2 == 1)):
            if not await round_trip(rep):
                break
            if rep:
                acc.hit("several_restores_on_one_ncp")

    for it in range(desc["n"]):
        async def main(loop, it=it):
            await one(loop, it)
        try:
            vloop.run(main)
        except vloop.Deadlock:
            acc.violation("C14/hang", "loop ran dry during the round trip", {"version": V, "nv3": nv3, "iteration": it})
    return acc


def post_merge(reach, tier, events=None):
    vs = [k for k in reach if k.startswith("version:")]
    if len(vs) == 11:
        reach["versions_11"] = 11
    for k in vs:
        del reach[k]


def replay(case) -> Acc:
    return run_shard({"version": case["version"], "nv3": case["nv3"], "n": case.get("iteration", 0) + 1, "seed": case.get("seed", 0)})
