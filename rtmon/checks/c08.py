"""C08 - malformed or unexpected EZSP frames are contained.

Frames derived from valid responses and callbacks (truncation at every length, 1-3 byte flips,
frame-ID and sequence substitution) and uniformly random strings are injected through the
real EZSP.frame_received, in every protocol version, with and without a pending command.
Monitors: nothing raises out of the entry point; the pending call is completed only by a
frame bearing its own sequence number *and* frame ID, with that frame's decoded values (or
InvalidCommandError for an invalidCommand frame under its sequence); a callback fires only for
a frame the reference decodes completely as a known frame of the active version, with the
reference's values; afterwards a fresh command completes normally.
"""
from __future__ import annotations

import asyncio
import logging
import random

from .. import ezspref as X
from .. import vloop, ncpsim, valuegen
from ..runner import Acc
from .. import logmode
from ..contracts import install_status_contract

PROPERTY = "C08"
LEVEL = "exploration"
RULE = (
    "Cases are (protocol version, pending command or none, injected frame).  Frames are derived from "
    "valid encodings of a seeded sample of the version's responses and callbacks by: truncation at "
    "every length, 1-3 random byte flips, frame-ID substitution (pending ID, invalidCommand, unknown "
    "IDs, other commands), sequence substitution (the pending sequence), plus uniformly random "
    "strings of length 0..40.  Non-trivial = the frame is not a valid frame for a pending command "
    "of its own kind (i.e. it is malformed or unexpected); distinct = distinct (version, pending "
    "kind, frame bytes)."
)
ASSUMPTIONS = [
    "reference predicate 'decodes fully': header long enough for the version's layout, frame ID in "
    "the version's table, every declared field decodes with the field type's own deserialiser "
    "(frame-control bytes are not judged; trailing bytes after the last field are allowed)",
    "frame-mode stack built through the public bring-up path",
]
REACH = {t: ["versions_11", "op_truncate", "op_flip", "op_idsub", "op_seqsub", "op_random", "op_valid",
             "with_pending", "without_pending", "callback_accepted", "pending_completed_by_own_frame",
             "pending_invalid_command", "pending_seq_wrong_id", "own_kind_reply_under_neighbouring_sequence", "pending_command_ended_after_a_frame_took_its_slot", "fresh_command_ok", "undecodable_rejected",
             "unknown_id_rejected", "op_fc", "op_fc_truncate", "op_cancel_race"] for t in ("quick", "thorough")}
SHARD_TIMEOUT = {"quick": 900, "thorough": 3600}


def hdr_len(V):
    return len(X.request_header(V, 0, 0))


def ref_parse(V, COMMANDS_BY_ID, data: bytes):
    """-> None (does not decode) | (seq, frame_id, name, values, trailing)."""
    import bellows.types as t

    n = hdr_len(V)
    if len(data) < n:
        return None
    seq = data[0]
    if X.layout(V) == "v4":
        fid = data[2]
    elif X.layout(V) == "v5":
        fid = data[4]
    else:
        fid = data[3] | (data[4] << 8)
    body = data[n:]
    ent = COMMANDS_BY_ID.get(fid)
    if ent is None:
        return (seq, fid, None, None, None)
    name, rx = ent
    try:
        if isinstance(rx, dict):
            vals = []
            for T in rx.values():
                v, body = T.deserialize(body)
                vals.append(v)
        else:
            vals, body = rx.deserialize(body)
    except Exception:  # noqa: BLE001
        return (seq, fid, name, None, None)
    return (seq, fid, name, vals, bytes(body))


PENDING_KINDS = ["getEui64", "nop", "getNodeId", "getConfigurationValue", "getNetworkParameters"]


def shards(tier, seed):
    import bellows.ezsp as e

    out = []
    per = 2 if tier == "quick" else 6
    for v in sorted(e.EZSP._BY_VERSION):
        for p in range(per):
            out.append({"version": v, "part": p, "parts": per, "seed": seed,
                        "ncmd": 40 if tier == "quick" else 120, "nflip": 30 if tier == "quick" else 120,
                        "nrand": 600 if tier == "quick" else 6000})
    return out


class GiveUp(Exception):
    """The stack under test refuses to go on (already reported as a violation)."""


def run_shard(desc) -> Acc:
    import bellows.ezsp as e
    from bellows.exception import InvalidCommandError

    logmode.apply(desc)
    acc = Acc()
    install_status_contract(acc)
    V = desc["version"]
    cls = e.EZSP._BY_VERSION[V]
    C = cls.COMMANDS
    BY_ID = {cid: (name, rx) for name, (cid, tx, rx) in C.items()}
    rnd = random.Random(desc["seed"] * 1009 + V * 17 + desc["part"])
    names = sorted(C)
    handlers = [n for n in names if n.endswith("Handler")]
    sample = rnd.sample(handlers, min(len(handlers), desc["ncmd"] // 2)) + \
        rnd.sample([n for n in names if not n.endswith("Handler")], desc["ncmd"] // 2)
    must = [n for n in ("incomingMessageHandler", "messageSentHandler", "stackStatusHandler", "invalidCommand",
                        "trustCenterJoinHandler") if n in C]
    sample = sorted(set(sample + (must if desc["part"] == 0 else [])))
    inv_id = C["invalidCommand"][0]
    acc.reach["version:%d" % V] += 1

    def encode(name, seq, cb=True, mode=None):
        cid, _, rx = C[name]
        vals, _ = valuegen.gen_schema(rx, rnd, mode)
        body = b"".join(T(v).serialize() for T, v in zip(rx.values(), vals)) if isinstance(rx, dict) else vals.serialize()
        return X.response_header(V, seq, cid, callback=cb) + body

    async def main(loop):
        st = await ncpsim.started(loop, V, acc, "C08")
        ez = st.ezsp

        class Hold:
            """NCP that never answers: keeps a command pending."""
            mode = "hold"
            last = None

            def on_request(self, data):
                self.last = data
                if self.mode == "answer":
                    seq, cid, _ = X.parse_request(V, data)
                    name = BY_ID[cid][0]
                    loop.io_at(loop.time(), ez.frame_received,
                               X.response_header(V, seq, cid) + st.ncp.encode_body(name, st.ncp.zero_reply(name)))

        hold = Hold()
        st.gw.ncp = hold
        cbs = []
        ez.add_callback(lambda name, args: cbs.append((name, args)))
        pending = {"task": None, "seq": None, "name": None, "id": None}

        async def ensure_pending(kind):
            tk = pending["task"]
            if tk is not None and not tk.done():
                return
            hold.mode, hold.last = "hold", None
            args = {"getConfigurationValue": (1,)}.get(kind, ())
            pending["task"] = asyncio.ensure_future(e.EZSP.__getattr__(ez, kind)(*args))
            for _ in range(6):
                await asyncio.sleep(0)
                if hold.last is not None:
                    break
            if hold.last is None:
                # the previous (orphaned) command still holds the send slot: wait it out
                await asyncio.sleep(11)
            if hold.last is None:
                tk = pending["task"]
                if tk.done() and not tk.cancelled() and tk.exception() is not None:
                    # a command issued after malformed frames was refused outright: that is the property's
                    # last clause failing, not a harness problem
                    acc.violation("C08/afterwards/fresh-command-failed",
                                  f"after the malformed frames a fresh {kind} was not even sent: {tk.exception()!r}",
                                  {"version": V, "seed": desc["seed"], "part": desc["part"], "op": "ensure_pending"})
                    raise GiveUp
                raise RuntimeError("pending command was never sent")
            pending["seq"] = hold.last[0]
            pending["name"] = kind
            pending["id"] = C[kind][0]

        nwait = [0]

        async def drop_pending():
            tk = pending["task"]
            if tk is not None and not tk.done():
                tk.cancel()
                try:
                    await tk
                except BaseException:  # noqa: BLE001
                    pass
            pending["task"] = None

        async def cancel_race(kind: str):
            """The caller of the pending command is cancelled and the (well-formed) response arrives before
            the command's own clean-up has run - e.g. a frame handed over by the UART thread landing ahead
            of the task's wake-up.  Nothing may escape the receive entry point."""
            await ensure_pending(kind)
            frame = encode(kind, pending["seq"], cb=False)
            case = {"version": V, "op": "cancel_race", "frame": frame.hex(), "pending": kind, "seed": desc["seed"], "part": desc["part"]}
            acc.case()
            tk = pending["task"]
            tk.cancel()
            cbs.clear()
            try:
                ez.frame_received(frame)
                acc.hit("op_cancel_race")
            except BaseException as ex:  # noqa: BLE001
                acc.violation("C08/raises", f"frame_received raised {ex!r} on the response to a command whose caller was just cancelled", case)
            try:
                await tk
            except BaseException:  # noqa: BLE001
                pass
            pending["task"] = None
            acc.nontrivial((V, "cancel_race", kind, frame))

        async def inject(frame: bytes, op: str, with_pending: bool, kind: str):
            case = {"version": V, "op": op, "frame": frame.hex(), "pending": kind if with_pending else None,
                    "seed": desc["seed"], "part": desc["part"]}
            acc.case()
            acc.hit("op_" + op)
            if with_pending:
                await ensure_pending(kind)
                acc.hit("with_pending")
            else:
                await drop_pending()
                acc.hit("without_pending")
            pseq, pid = (pending["seq"], pending["id"]) if with_pending else (None, None)
            case["pending_seq"] = pseq
            cbs.clear()
            try:
                ez.frame_received(frame)
            except BaseException as ex:  # noqa: BLE001
                acc.violation("C08/raises", f"frame_received raised {ex!r} on {frame.hex()}", case)
                return
            for _ in range(3):
                await asyncio.sleep(0)
            ref = ref_parse(V, BY_ID, frame) if frame else None
            decodes = ref is not None and ref[3] is not None
            if ref is not None and ref[2] is None:
                acc.hit("unknown_id_rejected")
            if ref is not None and ref[2] is not None and ref[3] is None:
                acc.hit("undecodable_rejected")
            # ---- pending command
            if with_pending:
                tk = pending["task"]
                if tk.done():
                    own = decodes and ref[0] == pseq and ref[1] in (pid, inv_id)
                    if tk.cancelled():
                        acc.violation("C08/pending/cancelled", "pending command was cancelled by a frame", case)
                    elif tk.exception() is not None:
                        ex = tk.exception()
                        if isinstance(ex, InvalidCommandError) and own and ref[1] == inv_id:
                            acc.hit("pending_invalid_command")
                        elif ref is not None and ref[0] == pseq and ref[1] in (pid, inv_id) and not decodes:
                            # the command's own response (its sequence number AND its frame ID), with a payload that
                            # does not decode: ending the command with an error is not "completing it with the
                            # payload of a different command" - the property leaves this open
                            acc.hit("pending_failed_by_its_own_malformed_response")
                        else:
                            acc.violation("C08/pending/failed-by-foreign-frame",
                                          f"pending {kind} (seq {pseq}) ended with {ex!r} after frame {frame.hex()}", case)
                    else:
                        res = tk.result()
                        if not own or ref[1] != pid:
                            acc.violation("C08/pending/completed-by-foreign-frame",
                                          f"pending {kind} (seq {pseq}, id 0x{pid:04x}) was completed with {res!r} by frame "
                                          f"{frame.hex()} (reference: {ref and ref[:3]})", case)
                        elif res != ref[3]:
                            acc.violation("C08/pending/wrong-values", f"completed with {res!r}, frame decodes to {ref[3]!r}", case)
                        else:
                            acc.hit("pending_completed_by_own_frame")
                    pending["task"] = None
                elif ref is not None and ref[0] == pseq:
                    if decodes and ref[1] != pid:
                        acc.hit("pending_seq_wrong_id")
                    # The slot under this sequence may have been consumed.  The command itself must still come to an
                    # end - by its timeout at the latest - or nothing issued after it would ever be sent.
                    nwait[0] += 1
                    if nwait[0] % 3 == 0:
                        import bellows.ezsp.protocol as proto_

                        await asyncio.sleep(float(getattr(proto_, "EZSP_CMD_TIMEOUT", 10)) + 1.0)
                        if not tk.done():
                            acc.violation("C08/afterwards/pending-command-never-ended",
                                          f"pending {kind} (seq {pseq}) was still pending a second after the command timeout, "
                                          f"after frame {frame.hex()} arrived under its sequence number", case)
                        else:
                            tk.exception() if not tk.cancelled() else None
                            acc.hit("pending_command_ended_after_a_frame_took_its_slot")
                    await drop_pending()
            # ---- callbacks
            if cbs:
                if not decodes:
                    acc.violation("C08/callback/for-undecodable-frame",
                                  f"callbacks fired {cbs!r} for a frame the reference cannot decode: {frame.hex()}", case)
                elif len(cbs) != 1 or cbs[0][0] != ref[2] or cbs[0][1] != ref[3]:
                    acc.violation("C08/callback/wrong-content", f"callbacks {cbs!r}, reference ({ref[2]!r}, {ref[3]!r})", case)
                else:
                    acc.hit("callback_accepted")
            nontrivial = not (decodes and (not with_pending or ref[0] != pseq or ref[1] == pid))
            if nontrivial or op != "valid":
                acc.nontrivial((V, kind if with_pending else None, frame))

        async def fresh():
            await drop_pending()
            hold.mode = "answer"
            try:
                r1 = await ez.getEui64()
                r2 = await ez.nop()
                if r2 != [] or len(r1) != 1:
                    raise ValueError(f"unexpected results {r1!r} {r2!r}")
                acc.hit("fresh_command_ok")
            except BaseException as ex:  # noqa: BLE001
                acc.violation("C08/afterwards/fresh-command-failed", f"after the malformed frames a fresh command ended with {ex!r}",
                              {"version": V, "seed": desc["seed"], "part": desc["part"]})
            hold.mode = "hold"

        mine = sample[desc["part"]::desc["parts"]]
        kinds = PENDING_KINDS
        ki = 0
        for name in mine:
            for wp in (False, True):
                kind = kinds[ki % len(kinds)]
                ki += 1
                seq0 = 0x5A
                base = encode(name, seq0, cb=name.endswith("Handler"), mode=rnd.choice(valuegen.MODES))
                await inject(base, "valid", wp, kind)
                for L in range(0, len(base)):
                    await inject(base[:L], "truncate", wp, kind)
                # the same with other frame-control bytes (overflow / truncated / pending-callback bits,
                # reserved bits): whatever they say, a frame that does not decode fully is not a frame
                for fc in (0x82, 0x92, 0x81, 0x42 | 0x80, 0x02, 0xFF):
                    alt = bytearray(base)
                    alt[1] = fc
                    await inject(bytes(alt), "fc", wp, kind)
                    for L in sorted({len(base) - 1, len(base) - 2, len(base) - 3, max(hdr_len(V), len(base) // 2), hdr_len(V) + 1}):
                        if hdr_len(V) <= L < len(base):
                            await inject(bytes(alt[:L]), "fc_truncate", wp, kind)
                if wp:
                    await cancel_race(kind)
                for _ in range(desc["nflip"]):
                    b = bytearray(base)
                    for _k in range(rnd.randrange(1, 4)):
                        b[rnd.randrange(len(b))] = rnd.randrange(256)
                    await inject(bytes(b), "flip", wp, kind)
                # frame-ID substitution
                n = hdr_len(V)
                for fid in (C[kind][0], inv_id, 0x7F, 0xFE, C[rnd.choice(names)][0], C[rnd.choice(names)][0]):
                    hdr = bytearray(X.response_header(V, seq0, fid & (0xFF if X.layout(V) != "v8" else 0xFFFF)))
                    await inject(bytes(hdr) + base[n:], "idsub", wp, kind)
                    if wp:
                        await ensure_pending(kind)
                        hdr[0] = pending["seq"]
                        await inject(bytes(hdr) + base[n:], "idsub", wp, kind)
                # sequence substitution
                if wp:
                    await ensure_pending(kind)
                    await inject(bytes([pending["seq"]]) + base[1:], "seqsub", wp, kind)
                    # a well-formed reply of the pending command's own kind, but under a neighbouring sequence number
                    # (one ahead, one behind, far away): it answers nothing that is pending
                    for d_ in (1, 255, rnd.choice([2, 128, 254])):
                        await ensure_pending(kind)
                        await inject(encode(kind, (pending["seq"] + d_) % 256, cb=False), "seqsub", wp, kind)
                        acc.hit("own_kind_reply_under_neighbouring_sequence")
                    # the pending command's own valid reply / an invalidCommand under its sequence
                    await ensure_pending(kind)
                    await inject(encode(kind, pending["seq"], cb=False), "seqsub", wp, kind)
                    await ensure_pending(kind)
                    await inject(X.invalid_command(V, pending["seq"], rnd.choice([0x30, 0x36, 0x00, 0xEE])), "seqsub", wp, kind)
            await fresh()
        for i in range(desc["nrand"]):
            wp = i % 2 == 1
            data = rnd.randbytes(rnd.randrange(0, 41))
            if wp and data and rnd.random() < 0.3:
                await ensure_pending(kinds[i % len(kinds)])
                data = bytes([pending["seq"]]) + data[1:]
            await inject(data, "random", wp, kinds[i % len(kinds)])
        await fresh()
        await drop_pending()
        acc.sample({"version": V, "derived_from": mine[:4], "ops": ["valid", "truncate", "flip", "idsub", "seqsub", "random"]})

    try:
        vloop.run(main)
    except (ncpsim.BringUpFailed, GiveUp):
        pass
    return acc


def post_merge(reach, tier, events=None):
    vs = [k for k in reach if k.startswith("version:")]
    if len(vs) == 11:
        reach["versions_11"] = 11
    for k in vs:
        del reach[k]


def replay(case) -> Acc:
    print("re-running the shard that produced the case (frames are generated from the seed)")
    d = [s for s in shards("quick", case.get("seed", 0)) if s["version"] == case["version"] and s["part"] == case.get("part", 0)]
    return run_shard(d[0])
