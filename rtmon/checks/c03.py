"""C03 - ASH frames on the wire follow the specified layout bit for bit.

Differential oracle: the independent encoder/decoder in rtmon.ashref against
  * frame objects' .to_bytes()                         (encode direction)
  * parse_frame(reference bytes)                       (decode direction, exact inverse)
  * bytes the *running* host hands to transport.write  (send_data / ACK / NAK / send_reset)
  * 1- and 2-bit corruptions (before stuffing): parse_frame must reject, and end to end
    data_received() must hand nothing up and answer with one NAK.
"""
from __future__ import annotations

import asyncio
import itertools
import random

from .. import ashref as R
from ..ashharness import new_protocol, decode_writes
from ..runner import Acc
from .. import vloop, logmode

PROPERTY = "C03"
LEVEL = "exploration"
RULE = (
    "Cases are (frame class, control-field values, payload length, payload pattern) tuples, "
    "enumerated exhaustively for control fields / reset codes / control bytes and over every "
    "payload length up to the tier bound with 5 patterns (zeros, seeded random, reserved "
    "bytes only, the randomisation sequence itself, and a payload whose randomised image walks "
    "through every ordered pair of reserved / reserved^0x20 bytes), each also fed through the "
    "running receiver as the reference's wire image; corruption cases are (frame, bit "
    "positions) pairs.  Each case is distinct by construction; a case counts as non-trivial "
    "when it was both encoded and parsed (or, for corruptions, rejected) against the "
    "reference; the number reported is the number of distinct signatures."
)
ASSUMPTIONS = [
    "rtmon.ashref (bitwise CRC-CCITT, LFSR, stuffing, control-byte layout) is a faithful "
    "reading of UG101",
    "frame classes are reachable as bellows.ash.{DataFrame,AckFrame,NakFrame,RstFrame,"
    "RStackFrame,ErrorFrame} with keyword fields as in the pinned tree; parse_frame is public",
]
EXHAUSTIVE = {
    "quick": "control fields of DATA/ACK/NAK, all 256 reset codes, all 256 control bytes, "
    "payload lengths 0..200",
    "thorough": "control fields of DATA/ACK/NAK, all 256 reset codes, all 256 control bytes, "
    "payload lengths 0..200",
}
REACH = {
    t: [
        "enc_DATA", "enc_ACK", "enc_NAK", "enc_RST", "enc_RSTACK", "enc_ERROR",
        "parse_DATA", "parse_ACK", "parse_NAK", "parse_RST", "parse_RSTACK", "parse_ERROR",
        "stuffed_0x7e", "stuffed_0x7d", "stuffed_0x11", "stuffed_0x13", "stuffed_0x18",
        "stuffed_0x1a", "flip1_rejected", "flip2_rejected", "classify_256",
        "wire_DATA", "wire_DATA_retx", "wire_ACK", "wire_NAK", "wire_RST", "flip_e2e_nak",
        "recv_e2e", "recv_escaped", "recv_esc_then_stuffed_lookalike", "wire_with_debug_logging",
    ]
    for t in ("quick", "thorough")
}
SHARD_TIMEOUT = {"quick": 600, "thorough": 1800}

MAXLEN = {"quick": 200, "thorough": 200}


def pattern(kind: int, n: int, seed: int) -> bytes:
    if kind == 0:
        return bytes(n)
    if kind == 1:
        return random.Random(seed * 1000003 + n).randbytes(n)
    if kind == 2:
        rs = R.RESERVED
        return bytes(rs[(i + seed) % len(rs)] for i in range(n))
    if kind == 4:
        # the *randomised* data field (what is stuffed and put on the wire) walks through every
        # ordered pair over {reserved bytes} U {reserved ^ 0x20}: ESC followed by 0x31, 0x5D
        # followed by 0x7E, ... - the adjacencies on which a stuffing / unstuffing shortcut trips
        img = _ADJ[(seed * 7) % len(_ADJ):] + _ADJ
        seq = R.lfsr(n)
        return bytes(img[i] ^ seq[i] for i in range(n))
    return R.lfsr(n)


_A = sorted(set(R.RESERVED) | {b ^ 0x20 for b in R.RESERVED})
_ADJ = bytes(x for a in _A for b in _A for x in (a, b))
NPAT = 5


def shards(tier, seed):
    out = []
    maxlen = MAXLEN[tier]
    step = 8
    for lo in range(0, maxlen + 1, step):
        out.append({"part": "a", "lo": lo, "hi": min(lo + step - 1, maxlen), "seed": seed})
    out.append({"part": "bc", "seed": seed})
    # corruption: split by frame group
    if tier == "quick":
        ctls = [(f, r, a) for f in (0, 3, 5, 7) for r in (0, 1) for a in (0, 2, 5, 7)]
        codes = [0, 1, 2, 3, 6, 9, 0x0B, 0x51, 0x80, 0xFF, 0x7E, 0x7D, 0x11, 0x13, 0x18, 0x1A]
        for L in range(0, 7):
            out.append({"part": "e", "grp": "data", "ctls": ctls, "lens": [L], "pats": [2], "seed": seed})
        out.append({"part": "e", "grp": "acknak", "seed": seed})
        out.append({"part": "e", "grp": "rst", "codes": codes, "seed": seed})
    else:
        allctl = [(f, r, a) for f in range(8) for r in (0, 1) for a in range(8)]
        for L in range(0, 7):
            for i in range(0, len(allctl), 32):
                out.append({"part": "e", "grp": "data", "ctls": allctl[i:i + 32], "lens": [L],
                            "pats": [1, 2], "seed": seed})
        out.append({"part": "e", "grp": "acknak", "seed": seed})
        for i in range(0, 256, 32):
            out.append({"part": "e", "grp": "rst", "codes": list(range(i, i + 32)), "seed": seed})
    # stuffing helpers
    for lo in range(0, 65536, 8192):
        out.append({"part": "s", "lo": lo, "hi": lo + 8192, "seed": seed})
    # running host, with logging off and with DEBUG logging on (a log statement is code too)
    lens = list(range(0, maxlen + 1))
    n = 4 if tier == "quick" else 12
    for i in range(n):
        out.append({"part": "g", "lens": lens[i::n], "seed": seed, "debuglog": False})
        out.append({"part": "g", "lens": lens[(i + 1) % n::n], "seed": seed + 1, "debuglog": True})
    return out


# ---------------------------------------------------------------------------------------
def _fields(fr):
    """Extract comparable fields from a bellows frame object without naming internals."""
    name = type(fr).__name__
    d = {}
    for k in ("frm_num", "re_tx", "ack_num", "ezsp_frame", "res", "ncp_ready", "version",
              "reset_code"):
        if hasattr(fr, k):
            v = getattr(fr, k)
            d[k] = bytes(v) if isinstance(v, (bytes, bytearray)) else int(v)
    return name, d


def check_data(acc: Acc, ash, frm, retx, ack, payload, patk):
    case = {"part": "a1", "frm": frm, "retx": retx, "ack": ack, "payload": payload.hex()}
    ref = R.raw_data(frm, retx, ack, payload)
    acc.case()
    try:
        got = bytes(ash.DataFrame(frm_num=frm, re_tx=retx, ack_num=ack, ezsp_frame=payload).to_bytes())
    except Exception as e:  # noqa: BLE001
        acc.violation("C03/encode/DATA-raises", f"DataFrame.to_bytes raised {e!r}", case)
        return
    acc.hit("enc_DATA")
    if got != ref:
        acc.violation("C03/encode/DATA", f"DATA encode differs: got {got.hex()} want {ref.hex()}", case)
    try:
        fr = ash.parse_frame(ref)
        name, d = _fields(fr)
    except Exception as e:  # noqa: BLE001
        acc.violation("C03/parse/DATA-raises", f"parse_frame raised {e!r} on valid DATA {ref.hex()}", case)
        return
    acc.hit("parse_DATA")
    want = {"frm_num": frm, "re_tx": retx, "ack_num": ack, "ezsp_frame": payload}
    if name != "DataFrame" or d != want:
        acc.violation("C03/parse/DATA", f"parse differs: got {name} {d} want {want}", case)
    # stuffing through the public static helper if present, else skipped (wire part covers it)
    st = R.stuff(ref)
    for b in st:
        if b in R.RESERVED and b != R.ESC:
            raise AssertionError("reference stuffing is broken")
    acc.nontrivial(("DATA", frm, retx, ack, len(payload), patk))


def check_receive(acc: Acc, retx, ack, payload, patk):
    """Decode direction through the running receiver: the reference's wire image of a DATA frame
    (stuffed, flag-terminated) must come out of data_received() as exactly that payload."""
    acc.case()
    case = {"part": "h", "retx": retx, "ack": ack, "payload": payload.hex()}
    wire = R.encode_data(0, retx, ack, payload)
    proto, up, tr, log = new_protocol()
    try:
        proto.data_received(wire)
    except Exception as e:  # noqa: BLE001
        acc.violation("C03/receive/raises", f"data_received raised {e!r} on the valid frame {wire.hex()}", case)
        return
    ups = [e for e in log if e[0].startswith("up_")]
    wrs = [e[1] for e in log if e[0] == "wr"]
    if ups != [("up_data", payload)]:
        acc.violation("C03/receive/payload-differs",
                      f"wire {wire.hex()} (payload {payload.hex()}) was handed up as {[(u[0], u[1].hex() if len(u) > 1 and isinstance(u[1], bytes) else u[1:]) for u in ups]}", case)
    elif wrs != [R.encode_ack(1)]:
        acc.violation("C03/receive/ack-differs", f"answer to a valid DATA frame was {[w.hex() for w in wrs]}, want {R.encode_ack(1).hex()}", case)
    else:
        acc.hit("recv_e2e")
        body = wire[:-1]
        for i, b in enumerate(body[:-1]):
            if b == R.ESC:
                acc.hit("recv_escaped")
                if i + 2 < len(body) and body[i + 1] == 0x5D and (body[i + 2] ^ 0x20) in R.RESERVED:
                    acc.hit("recv_esc_then_stuffed_lookalike")


def part_s(desc) -> Acc:
    """Stuffing helpers against the reference on adjacency-rich strings (only if the tree still
    exposes them as static helpers; the end-to-end parts do not depend on that)."""
    import bellows.ash as ash

    acc = Acc()
    cls = ash.AshProtocol
    stuff = getattr(cls, "_stuff_bytes", None)
    unstuff = getattr(cls, "_unstuff_bytes", None)
    if stuff is None or unstuff is None:
        acc.notes.append("AshProtocol._stuff_bytes/_unstuff_bytes not present: helper differential skipped")
        return acc

    def one(x: bytes):
        acc.case()
        case = {"part": "s", "x": x.hex()}
        want = R.stuff(x)
        try:
            got = bytes(stuff(x))
        except Exception as e:  # noqa: BLE001
            acc.violation("C03/stuff/raises", f"stuffing {x.hex()} raised {e!r}", case)
            return
        if got != want:
            acc.violation("C03/stuff/differs", f"stuffing {x.hex()} gave {got.hex()}, reference {want.hex()}", case)
        try:
            back = bytes(unstuff(want))
        except Exception as e:  # noqa: BLE001
            acc.violation("C03/unstuff/raises", f"unstuffing {want.hex()} raised {e!r}", case)
            return
        if back != x:
            acc.violation("C03/unstuff/not-inverse", f"unstuff(stuff({x.hex()})) = {back.hex()} (wire {want.hex()})", case)
        else:
            acc.hit("helper_roundtrip")

    lo, hi = desc["lo"], desc["hi"]
    for v in range(lo, hi):
        one(bytes([v >> 8, v & 0xFF]))
    if lo == 0:
        for n in (1, 3, 4):
            for tup in itertools.product(_A, repeat=n):
                one(bytes(tup))
        acc.nontrivial(("helpers", "alphabet", len(_A)))
    acc.nontrivial(("helpers", lo, hi))
    acc.sample({"stuffing_helpers": "all 2-byte strings %04x..%04x" % (lo, hi - 1),
                "example": [bytes([0x7D, 0x31]).hex(), R.stuff(bytes([0x7D, 0x31])).hex()]})
    return acc


def part_a(desc) -> Acc:
    import bellows.ash as ash

    acc = Acc()
    seed = desc["seed"]
    for L in range(desc["lo"], desc["hi"] + 1):
        for patk in range(NPAT):
            payload = pattern(patk, L, seed)
            for frm in range(8):
                for retx in (0, 1):
                    for ack in range(8):
                        check_data(acc, ash, frm, retx, ack, payload, patk)
            for retx in (0, 1):
                check_receive(acc, retx, (L + patk) % 8, payload, patk)
            acc.sample({"class": "DATA", "len": L, "pattern": patk,
                        "ref_wire_frm3_retx1_ack5": R.encode_data(3, 1, 5, payload).hex()[:80]}, limit=2)
    return acc


def part_bc(desc) -> Acc:
    import bellows.ash as ash

    acc = Acc()
    # (b) ACK / NAK all res x nRdy x ackNum
    for kind, cls, rawf in (("ACK", ash.AckFrame, R.raw_ack), ("NAK", ash.NakFrame, R.raw_nak)):
        for res in (0, 1):
            for nrdy in (0, 1):
                for ack in range(8):
                    acc.case()
                    case = {"part": "b", "kind": kind, "res": res, "nrdy": nrdy, "ack": ack}
                    ref = rawf(ack, nrdy, res)
                    try:
                        got = bytes(cls(res=res, ncp_ready=nrdy, ack_num=ack).to_bytes())
                        acc.hit("enc_" + kind)
                        if got != ref:
                            acc.violation(f"C03/encode/{kind}", f"{kind} encode {got.hex()} != {ref.hex()}", case)
                        name, d = _fields(ash.parse_frame(ref))
                        acc.hit("parse_" + kind)
                        want = {"res": res, "ncp_ready": nrdy, "ack_num": ack}
                        if name != cls.__name__ or d != want:
                            acc.violation(f"C03/parse/{kind}", f"parse {name} {d} != {want}", case)
                    except Exception as e:  # noqa: BLE001
                        acc.violation(f"C03/{kind}-raises", f"{e!r}", case)
                    acc.nontrivial((kind, res, nrdy, ack))
    # RST
    acc.case()
    ref = R.raw_rst()
    try:
        got = bytes(ash.RstFrame().to_bytes())
        acc.hit("enc_RST")
        if got != ref:
            acc.violation("C03/encode/RST", f"{got.hex()} != {ref.hex()}", {"part": "b", "kind": "RST"})
        name, d = _fields(ash.parse_frame(ref))
        acc.hit("parse_RST")
        if name != "RstFrame":
            acc.violation("C03/parse/RST", f"parsed as {name}", {"part": "b", "kind": "RST"})
    except Exception as e:  # noqa: BLE001
        acc.violation("C03/RST-raises", repr(e), {"part": "b", "kind": "RST"})
    acc.nontrivial(("RST",))
    if R.encode_rst() != bytes.fromhex("1ac038bc7e"):
        raise AssertionError("reference RST encoding is not the UG101 literal")
    # RSTACK / ERROR x 256 codes
    for kind, cls, rawf in (("RSTACK", ash.RStackFrame, R.raw_rstack), ("ERROR", ash.ErrorFrame, R.raw_error)):
        for code in range(256):
            acc.case()
            case = {"part": "b", "kind": kind, "code": code}
            ref = rawf(code)
            try:
                name, d = _fields(ash.parse_frame(ref))
                acc.hit("parse_" + kind)
                if name != cls.__name__ or d.get("version") != 2 or d.get("reset_code") != code:
                    acc.violation(f"C03/parse/{kind}", f"parse {name} {d}", case)
                fr = ash.parse_frame(ref)
                got = bytes(fr.to_bytes())
                acc.hit("enc_" + kind)
                if got != ref:
                    acc.violation(f"C03/encode/{kind}", f"{got.hex()} != {ref.hex()}", case)
            except Exception as e:  # noqa: BLE001
                acc.violation(f"C03/{kind}-raises", repr(e), case)
            acc.nontrivial((kind, code))
    # (c) all 256 control bytes: classification
    for c in range(256):
        want = R.classify(c)
        for body in (b"", bytes([2, 0x0B]), b"\x00"):
            acc.case()
            raw = R.with_crc(bytes([c]) + body)
            case = {"part": "c", "control": c, "body": body.hex()}
            try:
                ref_fr = R.decode_frame(raw)
            except R.Bad:
                ref_fr = None
            try:
                fr = ash.parse_frame(raw)
                got = type(fr).__name__
            except Exception:  # noqa: BLE001
                got = None
            names = {"DATA": "DataFrame", "ACK": "AckFrame", "NAK": "NakFrame", "RST": "RstFrame",
                     "RSTACK": "RStackFrame", "ERROR": "ErrorFrame"}
            if ref_fr is None:
                if got is not None:
                    acc.violation("C03/classify/accepts-invalid", f"control 0x{c:02x} body {body.hex()} parsed as {got}, reference rejects", case)
            elif ref_fr.extra:
                acc.skipped["acknak_with_data"] += 1  # spec silent
            else:
                if got != names[want]:
                    acc.violation("C03/classify/wrong-class", f"control 0x{c:02x}: got {got}, reference says {want}", case)
            acc.nontrivial(("ctl", c, len(body)))
    acc.hit("classify_256")
    # (f) randomisation sequence if exported
    seq = getattr(ash, "PSEUDO_RANDOM_DATA_SEQUENCE", None)
    if seq is not None:
        acc.case()
        if bytes(seq) != R.lfsr(len(seq)):
            acc.violation("C03/lfsr/sequence", "exported randomisation sequence differs from the LFSR of UG101", {"part": "f"})
        acc.hit("lfsr_table_compared")
    acc.sample({"class": "RSTACK", "code": 0x0B, "ref_wire": R.encode_rstack(0x0B).hex()})
    acc.sample({"class": "ACK", "ack": 5, "ref_wire": R.encode_ack(5).hex()})
    return acc


def _flips(nbits):
    for i in range(nbits):
        yield (i,)
    for i, j in itertools.combinations(range(nbits), 2):
        yield (i, j)


def check_flips(acc: Acc, ash, label, raw: bytes, e2e_every: int = 1):
    nbits = len(raw) * 8
    k = 0
    for pos in _flips(nbits):
        b = bytearray(raw)
        for p in pos:
            b[p // 8] ^= 1 << (p % 8)
        bad = bytes(b)
        acc.case()
        case = {"part": "e1", "raw": raw.hex(), "flip": list(pos)}
        try:
            fr = ash.parse_frame(bad)
        except Exception:  # noqa: BLE001
            acc.hit("flip1_rejected" if len(pos) == 1 else "flip2_rejected")
        else:
            acc.violation("C03/corruption/accepted-by-parse_frame", f"{len(pos)}-bit corruption of {raw.hex()} -> {bad.hex()} parsed as {fr!r}", case)
        k += 1
        if k % e2e_every == 0:
            proto, up, tr, log = new_protocol()
            proto.data_received(R.stuff(bad) + bytes([R.FLAG]))
            dec = decode_writes(log)
            # "is rejected": nothing is handed up; what is written back must be a well-formed ACK / NAK frame carrying
            # the unchanged expected number (that it is a NAK is C02's clause)
            if any(e[0].startswith("up") for e in dec) or any(e[0] != "tx" or e[2] != 0 for e in dec if not e[0].startswith("up")):
                acc.violation("C03/corruption/e2e", f"corrupted frame {bad.hex()} produced {dec!r}: expected no upward event and at most ACK/NAK frames numbered 0", case)
            else:
                acc.hit("flip_e2e_nak")
    acc.nontrivial(("flip", label, raw))


def part_e(desc) -> Acc:
    import bellows.ash as ash

    acc = Acc()
    seed = desc["seed"]
    if desc["grp"] == "data":
        for (f, r, a) in desc["ctls"]:
            for L in desc["lens"]:
                for pk in desc["pats"]:
                    check_flips(acc, ash, "DATA", R.raw_data(f, r, a, pattern(pk, L, seed)))
        acc.sample({"corruption_of": "DATA", "ctls": desc["ctls"][:3], "len": desc["lens"], "flips": "all 1- and 2-bit"})
    elif desc["grp"] == "acknak":
        for res in (0, 1):
            for nrdy in (0, 1):
                for ack in range(8):
                    check_flips(acc, ash, "ACK", R.raw_ack(ack, nrdy, res))
                    check_flips(acc, ash, "NAK", R.raw_nak(ack, nrdy, res))
        check_flips(acc, ash, "RST", R.raw_rst())
    else:
        for code in desc["codes"]:
            check_flips(acc, ash, "RSTACK", R.raw_rstack(code))
            check_flips(acc, ash, "ERROR", R.raw_error(code))
    return acc


# -- (g) the running host -----------------------------------------------------------------
def part_g(desc) -> Acc:
    import bellows.ash as ash

    acc = Acc()
    seed = desc["seed"]

    async def main(loop):
        proto, up, tr, log = new_protocol()
        # RST through the public call
        proto.send_reset()
        acc.case()
        if tr.writes[-1] != R.encode_rst():
            acc.violation("C03/wire/RST", f"send_reset wrote {tr.writes[-1].hex()} want {R.encode_rst().hex()}", {"part": "g", "what": "rst"})
        else:
            acc.hit("wire_RST")
        proto.data_received(R.encode_rstack(0x0B))
        host_rx = 0  # what the host expects from us next
        host_tx = 0
        rnd = random.Random(seed)
        for L in desc["lens"]:
            for pk in range(NPAT):
                payload = pattern(pk, L, seed)
                # move the host's ackNum: send it k DATA frames
                for _ in range(rnd.randrange(0, 3)):
                    mark = len(log)
                    proto.data_received(R.encode_data(host_rx, 0, host_tx, b"\x55" * rnd.randrange(0, 4)))
                    host_rx = (host_rx + 1) % 8
                    acc.case()
                    w = [e for e in log[mark:] if e[0] == "wr"]
                    # C03 is about the LAYOUT of what the host writes: an accepted frame draws an ACK (C04), and that
                    # ACK must be the reference encoding of its fields, bit for bit
                    if len(w) != 1 or w[0][1] != R.encode_ack(host_rx):
                        acc.violation("C03/wire/ACK", f"ACK on the wire {[x[1].hex() for x in w]} want {R.encode_ack(host_rx).hex()}", {"part": "g", "what": "ack"})
                    else:
                        acc.hit("wire_ACK")
                # an out-of-sequence frame -> NAK
                if rnd.random() < 0.3:
                    mark = len(log)
                    proto.data_received(R.encode_data((host_rx + 2) % 8, 0, host_tx, b"x"))
                    acc.case()
                    w = [e for e in log[mark:] if e[0] == "wr"]
                    # which answer an out-of-sequence frame draws (a NAK, an ACK, at times none) is the receive rule's
                    # business (C04 / C02); here only: whatever is written is the reference encoding of an ACK or NAK
                    # carrying the next expected number
                    okw = all(x[1] in (R.encode_nak(host_rx), R.encode_ack(host_rx)) for x in w)
                    if not okw:
                        acc.violation("C03/wire/NAK", f"answer to an out-of-sequence frame on the wire {[x[1].hex() for x in w]}, want {R.encode_nak(host_rx).hex()} "
                                      f"(or {R.encode_ack(host_rx).hex()})", {"part": "g", "what": "nak"})
                    elif any(x[1] == R.encode_nak(host_rx) for x in w):
                        acc.hit("wire_NAK")
                retries = rnd.choice([0, 0, 1, 2])
                mark = len(log)
                task = asyncio.ensure_future(proto.send_data(payload))
                await asyncio.sleep(0)
                for attempt in range(retries + 1):
                    w = [e for e in log[mark:] if e[0] == "wr"]
                    mark = len(log)
                    acc.case()
                    want = R.encode_data(host_tx, 1 if attempt else 0, host_rx, payload)
                    case = {"part": "g", "what": "data", "len": L, "pat": pk, "attempt": attempt, "seed": seed}
                    # (a CANCEL byte in front of a frame is not part of the frame: ASH lets a sender put one there to make
                    # the receiver drop whatever line noise precedes it - the host's own RST does)
                    if len(w) != 1 or (w[0][1] != want and w[0][1] != bytes([R.CAN]) + want):
                        acc.violation("C03/wire/DATA", f"DATA on the wire {[x[1].hex() for x in w]} want {want.hex()}", case)
                    else:
                        acc.hit("wire_DATA_retx" if attempt else "wire_DATA")
                        body_ = w[0][1][:-1]
                        for b in (body_[1:] if body_[:1] == bytes([R.CAN]) else body_):
                            if b in R.RESERVED and b != R.ESC:
                                acc.violation("C03/wire/reserved-byte-unstuffed", f"reserved byte 0x{b:02x} inside {w[0][1].hex()}", case)
                        body = w[0][1][:-1]
                        for i, b in enumerate(body):
                            if b == R.ESC and i + 1 < len(body):
                                acc.hit("stuffed_0x%02x" % (body[i + 1] ^ 0x20))
                    if attempt < retries:
                        # no ACK: the host must repeat (after its adaptive timeout, at most 3.2 s);
                        # wait for exactly the next write, whenever it comes
                        for _w in range(80):
                            await asyncio.sleep(0.05)
                            if any(e[0] == "wr" for e in log[mark:]):
                                break
                    else:
                        proto.data_received(R.encode_ack((host_tx + 1) % 8))
                try:
                    await asyncio.wait_for(task, 20)
                except Exception as e:  # noqa: BLE001
                    acc.violation("C03/wire/send-failed", f"send_data raised {e!r} although it was acknowledged", {"part": "g", "len": L, "pat": pk})
                    return
                host_tx = (host_tx + 1) % 8
                acc.nontrivial(("wire", L, pk, retries))
        acc.sample({"running_host": True, "lens": desc["lens"][:8], "last_wire_frame": tr.writes[-1].hex()[:80]})

    vloop.run(main)
    return acc


def run_shard(desc) -> Acc:
    part = desc["part"]
    if logmode.apply(desc) and part == "g":
        acc = part_g(desc)
        acc.hit("wire_with_debug_logging")
        return acc
    if part == "s":
        return part_s(desc)
    if part == "a":
        return part_a(desc)
    if part == "bc":
        return part_bc(desc)
    if part == "e":
        return part_e(desc)
    if part == "g":
        return part_g(desc)
    raise ValueError(part)


def replay(case) -> Acc:
    import bellows.ash as ash

    acc = Acc()
    p = case.get("part")
    if p == "a1":
        check_data(acc, ash, case["frm"], case["retx"], case["ack"], bytes.fromhex(case["payload"]), -1)
    elif p == "e1":
        raw = bytes.fromhex(case["raw"])
        b = bytearray(raw)
        for q in case["flip"]:
            b[q // 8] ^= 1 << (q % 8)
        try:
            fr = ash.parse_frame(bytes(b))
            acc.violation("C03/corruption/accepted-by-parse_frame", f"{bytes(b).hex()} parsed as {fr!r}", case)
        except Exception as e:  # noqa: BLE001
            print("rejected with", repr(e))
    elif p == "h":
        check_receive(acc, case["retx"], case["ack"], bytes.fromhex(case["payload"]), -1)
    elif p == "s":
        return part_s({"lo": int(case["x"], 16) if len(case["x"]) == 4 else 0, "hi": (int(case["x"], 16) if len(case["x"]) == 4 else 0) + 1})
    elif p in ("b", "c", "f"):
        return part_bc({"seed": 0})
    elif p == "g":
        return part_g({"lens": [case.get("len", 0)], "seed": case.get("seed", 0)})
    return acc
