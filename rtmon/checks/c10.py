"""C10 - NCP failure or connection loss at any moment is reported and never hangs.

Wire mode on the virtual-time loop (real EZSP, uart.connect, Gateway, AshProtocol; fake
serial; FIFO line; independent NCP ASH endpoint; frame-level NCP).  A scripted workload
(bring-up, callback registration, idle, three concurrent commands, reset + version, one more
command, deliberate close) is first run fault-free to obtain its wire events E[0..n); then
one run per (failure kind, wire event index, injection offset) crash point, plus crash points
aligned with the host's own timers (same loop iteration, ordered before the timer).
"""
from __future__ import annotations

from ..excfam import family

import asyncio
import logging

from .. import ashref as R
from .. import vloop, wire
from ..runner import Acc
from .. import logmode
from ..contracts import install_status_contract

PROPERTY = "C10"
LEVEL = "fault_enumeration"
RULE = (
    "A run = (NCP version) x (failure kind: ERROR(0x51 / 0x80), unsolicited RSTACK with a non-software "
    "code, NCP silent from now on, NCP rejecting the next one or three DATA frames with a NAK and silent "
    "from then on, connection_lost(OSError), EOF) x (crash point: emission of wire "
    "event E[i] of the scripted workload, every i) x (offset: delivered before E[i] arrives / after it "
    "arrived) - plus, for every crash point at which a host timer (ACK, command, reset timeout) is "
    "pending in a silent-NCP variant, the failure delivered in the very loop iteration in which that "
    "timer expires, ordered before it; plus the post-registration crash points again after a history in "
    "which the NCP failed once (ERROR / power-on RSTACK) before any application was attached and was "
    "started up again.  Non-trivial = the failure was injected before the deliberate "
    "close; distinct = distinct (version, kind, crash point, offset)."
)
ASSUMPTIONS = [
    "termination bound = failure instant + EZSP_CMD_TIMEOUT + sum of ACK_TIMEOUTS attempt timeouts at their "
    "maximum (+ RESET_TIMEOUT for a reset), all read from the tree",
    "nothing but bounded termination is demanded before an application callback is registered; a silent "
    "NCP must be reported only once traffic made the silence observable (a command was in flight or "
    "issued afterwards)",
    "connection loss reaches the protocol through call_soon from an I/O callback (schedule model DESIGN 2.1)",
]
REACH = {t: ["kind_error", "kind_rstack", "kind_silent", "kind_naksilent", "kind_lost", "kind_eof", "phase_bringup", "phase_idle",
             "phase_inflight", "phase_reset", "phase_after_close", "reset_request_observed",
             "new_command_refused_at_once", "timer_aligned", "deliberate_close_silent", "queued_calls_released",
             "failure_after_an_earlier_unattended_failure", "caller_cancelled_in_the_failure_iteration",
             "failure_after_xoff", "xoff_in_the_history", "deliberate_close_with_commands_in_progress"]
         for t in ("quick", "thorough")}
SHARD_TIMEOUT = {"quick": 900, "thorough": 3600}


def run_case(V, case):
    import bellows.ash as ash
    import bellows.ezsp.protocol as pm
    import bellows.uart as uart
    from bellows.exception import EzspError

    trace: list = []
    info = {"hang": False, "phase_at_failure": None, "t_fail": None, "registered_at_failure": None,
            "timers_at_failure": [], "calls": {}, "probe": None, "bounds": None}
    ASH_SUM = float(ash.ACK_TIMEOUTS) * float(ash.T_RX_ACK_MAX)
    info["bounds"] = dict(cmd=float(pm.EZSP_CMD_TIMEOUT), ash=ASH_SUM, reset=float(uart.RESET_TIMEOUT))

    async def main(loop):
        clock = loop.time
        ws = wire.WireStack(loop, V, trace)
        # how the transport treats an exception escaping the receive callback alternates between the
        # two behaviours real transports have (see wire.WireStack._fatal_error)
        ws.transport_errors = "close" if (case.get("at") or 0) % 2 else "log"
        if case.get("cancel_first") or ((case.get("at") or 0) // 2) % 2:
            ws.ncp.think_time = 0.004  # commands spend some time "sent, waiting for the response"
        ws.install_serial()
        phase = ["bringup"]
        state = {"registered": False, "closed": False, "failed": False, "ez": None, "tasks": {}}

        def app_cb(name, args):
            if name == "_reset_controller_application":
                trace.append(("reset_request", clock(), repr(args)[:80]))
                # from now on: a new command must be refused at once and nothing may be written
                loop.call_soon(lambda: asyncio.ensure_future(probe()))

        async def probe():
            ez = state["ez"]
            t0 = clock()
            n0 = sum(1 for e in trace if e[0] == "line" and e[2] == "h2n")
            try:
                await ez.nop()
                res = ("returned", clock() - t0)
            except EzspError:
                res = ("EzspError", clock() - t0)
            except BaseException as ex:  # noqa: BLE001
                res = (family(ex), clock() - t0)
            await asyncio.sleep(0.05)
            n1 = sum(1 for e in trace if e[0] == "line" and e[2] == "h2n")
            info["probe"] = res + (n1 - n0,)
            trace.append(("probe", clock(), res, n1 - n0))

        def inject():
            if state["failed"]:
                return
            state["failed"] = True
            kind = case["kind"]
            info["phase_at_failure"] = phase[0]
            info["t_fail"] = clock()
            info["registered_at_failure"] = state["registered"] and not state["closed"]
            info["closed_at_failure"] = state["closed"]
            info["timers_at_failure"] = loop.pending_host_timers()
            info["open_at_failure"] = [k for k, c in info["calls"].items() if c.get("end") is None]
            def cancel_inflight_caller():
                for nm_, tk_ in list(state["tasks"].items()):
                    if not tk_.done():
                        trace.append(("cancel_caller", clock(), nm_))
                        tk_.cancel()
                        info["cancelled_caller"] = nm_
                        break

            if case.get("cancel_first") and kind in ("error", "rstack") and ws.protocol is not None and not ws.transport._closing:
                # Some task gives up on the command that is in flight (its caller is cancelled) and, later in
                # the SAME loop iteration, the serial read callback delivers the failure frame: the failure
                # is processed before the cancelled task has run its clean-up.
                cancel_inflight_caller()
                trace.append(("inject", clock(), kind, case.get("code"), "same-iteration"))
                if kind == "error":
                    ws.ash.failed = True
                    wire_bytes = R.encode_error(case["code"])
                else:
                    for t_ in (ws.ash._timer, ws.ash._ack_timer):
                        if t_ is not None:
                            t_.cancel()
                    ws.ash._reset_state()
                    ws.ash.connected, ws.ash.failed = True, False
                    ws.ncp.reset()
                    wire_bytes = R.encode_rstack(case["code"])
                trace.append(("line", clock(), "n2h", R.split_wire(wire_bytes)[0][0][1].sig(), "ok", False))
                ws.line._deliver("n2h", wire_bytes)
                return
            trace.append(("inject", clock(), kind, case.get("code")))
            if kind in ("error", "rstack"):
                ws.silent = False  # the failure frame itself must get through
            if kind == "error":
                ws.send_error(case["code"])
            elif kind == "rstack":
                ws.spontaneous_reset(case["code"])
            elif kind == "silent":
                ws.silent = True
            elif kind == "naksilent":
                # stops acknowledging "in a mixed way": NAKs the next DATA frame(s), then silence
                ws.naks_before_silence = case.get("code") or 1
                ws.silent = True
            elif kind == "lost":
                ws.lose_connection("error")
            elif kind == "eof":
                ws.lose_connection("eof")
            if case.get("cancel_first") and kind in ("lost", "eof"):
                # the loss was noticed in this iteration's I/O phase (connection_lost is queued); a handle
                # later in the same iteration cancels the caller: next iteration runs connection_lost first
                cancel_inflight_caller()

        def on_frame(idx):
            if idx == case.get("at") and not state["failed"]:
                if case.get("align_timer") is not None:
                    # make the NCP silent now and deliver the failure exactly when the k-th pending
                    # host timer expires (same iteration, before the timer)
                    ws.silent = True
                    info["t_silence"] = clock()

                    def later():
                        ts = loop.pending_host_timers()
                        k = case["align_timer"]
                        if len(ts) > k:
                            info["aligned_to"] = ts[k]
                            loop.io_at(ts[k], inject)
                        else:
                            info["aligned_to"] = None
                            inject()
                    loop.call_soon(later)
                else:
                    loop.io_at(clock() + case.get("offset", 0.0), inject)

        ws.line.on_frame = on_frame
        ws.line.armed = True  # frames are counted from the very first one (no random faults: vector empty)

        async def call(name, coro_fn):
            tk = asyncio.ensure_future(call_(name, coro_fn))
            state["tasks"][name] = tk
            try:
                return await asyncio.shield(tk)
            except asyncio.CancelledError:
                if tk.cancelled() or tk.done():
                    return None  # the harness cancelled this caller on purpose
                raise

        async def call_(name, coro_fn):
            info["calls"][name] = {"start": clock(), "end": None, "outcome": None, "phase": phase[0]}
            trace.append(("call", clock(), name))
            try:
                r = await coro_fn()
                info["calls"][name].update(end=clock(), outcome="ret")
                trace.append(("ret", clock(), name))
                return r
            except asyncio.CancelledError:
                info["calls"][name].update(end=clock(), outcome="cancelled")
                raise
            except BaseException as ex:  # noqa: BLE001
                info["calls"][name].update(end=clock(), outcome=family(ex))
                trace.append(("exc", clock(), name, family(ex), str(ex)[:60]))
                return None

        try:
            ez = ws.new_ezsp()
            state["ez"] = ez
            await call("connect", lambda: ez.connect(use_thread=False))
            if case.get("prefail"):
                # history: opening the port made the NCP reboot and say so (power-on RSTACK), or it
                # reported an ERROR, while no application was attached yet - nobody's business; the
                # host then starts it up normally
                phase[0] = "prefail"
                trace.append(("prefail", clock(), case["prefail"]))
                if case["prefail"] == "error":
                    ws.send_error(0x51)
                else:
                    ws.spontaneous_reset(0x02)
                await asyncio.sleep(0.3)
                phase[0] = "bringup"
            await call("startup_reset", ez.startup_reset)
            ez.add_callback(app_cb)
            state["registered"] = True
            trace.append(("registered", clock()))
            phase[0] = "idle"
            if case.get("xoff"):
                # history: the NCP sent a lone XOFF (its receive buffer was full for a moment) - and, variant
                # "xx", an XON shortly after.  ASH hosts may ignore the two bytes or honour them; whichever
                # they do, a failure later on is reported and releases whoever is waiting.
                loop.io_at(clock() + 0.01, ws.line._deliver, "n2h", b"\x13")
                if case["xoff"] == "xx":
                    loop.io_at(clock() + 0.2, ws.line._deliver, "n2h", b"\x11")
                trace.append(("xoff", clock(), case["xoff"]))
            await asyncio.sleep(0.5)
            phase[0] = "inflight"
            await asyncio.gather(call("A", ez.getEui64), call("B", ez.nop), call("C", ez.getNodeId))
            phase[0] = "idle2"
            await asyncio.sleep(0.2)
            phase[0] = "reset"
            await call("reset", ez.reset)
            await call("version", ez.version)
            phase[0] = "after_reset"
            await call("D", ez.getEui64)
            phase[0] = "closing"
            if case.get("close_busy"):
                # the port is closed on purpose while a command is in flight and two more wait behind it
                busy = [asyncio.ensure_future(call(n_, f_)) for n_, f_ in (("E", ez.getEui64), ("F", ez.nop), ("G", ez.getNodeId))]
                await asyncio.sleep(0.0005)
                trace.append(("close_while_busy", clock()))
            trace.append(("deliberate_close", clock()))
            state["closed"] = True
            try:
                ez.close()
            except BaseException as ex:  # noqa: BLE001
                trace.append(("close_raised", clock(), repr(ex)))
            phase[0] = "after_close"
            await asyncio.sleep(1.0)
            # let everything that is still open run into its timeouts
            await asyncio.sleep(info["bounds"]["cmd"] + ASH_SUM + info["bounds"]["reset"] + 2)
        finally:
            ws.uninstall_serial()
        trace.append(("end", clock()))
        info["n_frames"] = ws.line.n

    try:
        vloop.run(main)
    except vloop.Deadlock:
        info["hang"] = True
    return trace, info


def judge(V, case, trace, info):
    bad = []
    facts = set()
    B = info["bounds"]
    if info["hang"]:
        open_calls = [k for k, c in info["calls"].items() if c["end"] is None]
        bad.append(("C10/hang/loop-ran-dry-with-a-call-pending", f"calls still open: {open_calls}"))
    tf = info["t_fail"]
    rr = [e for e in trace if e[0] == "reset_request"]
    dc = next((e[1] for e in trace if e[0] == "deliberate_close"), None)
    if tf is None:
        # fault-free (or the crash point was never reached): the deliberate close must be silent
        if rr:
            bad.append(("C10/close/deliberate-close-requested-a-reset", f"reset request without any failure: {rr[0]}"))
        else:
            facts.add("deliberate_close_silent")
        for k, c in info["calls"].items():
            if k in ("E", "F", "G") and case.get("close_busy"):
                # cut off by the deliberate close: how they end is open, that they end is not
                if c["end"] is None and not info["hang"]:
                    bad.append(("C10/termination/call-never-ended", f"{k}, in progress at the deliberate close, never returned or raised"))
                else:
                    facts.add("deliberate_close_with_commands_in_progress")
                continue
            if c["outcome"] != "ret":
                if case.get("xoff") == "x" and k not in ("connect", "startup_reset"):
                    # a host that honours XOFF legitimately stops sending until XON: commands then time out
                    facts.add("commands_held_back_after_xoff")
                    continue
                bad.append(("C10/fault-free/call-failed", f"fault-free workload: {k} ended with {c['outcome']}"))
        if case.get("xoff"):
            facts.add("xoff_in_the_history")
        return bad, facts
    kind = case["kind"]
    facts.add("kind_" + kind)
    if case.get("xoff"):
        facts.add("failure_after_xoff")
    t_sil = info.get("t_silence")
    if dc is not None and tf <= dc <= tf + 0.003 and kind in ("error", "rstack"):
        # the failure frame was still on the line when the host closed the port: nothing is demanded
        return bad, facts
    if info.get("closed_at_failure") is False and any(e[0] == "conn_lost_ignored" for e in trace):
        info["closed_at_failure"] = True
    ph = info["phase_at_failure"]
    if case.get("prefail") and info["registered_at_failure"]:
        facts.add("failure_after_an_earlier_unattended_failure")
    facts.add({"prefail": "phase_bringup", "bringup": "phase_bringup", "idle": "phase_idle", "idle2": "phase_idle", "inflight": "phase_inflight",
               "reset": "phase_reset", "after_reset": "phase_inflight", "closing": "phase_after_close",
               "after_close": "phase_after_close"}[ph])
    if info.get("aligned_to"):
        facts.add("timer_aligned")
    # 3. bounded termination of every call (open at the failure or issued afterwards)
    for k, c in info["calls"].items():
        limit = B["cmd"] + B["ash"] + (B["reset"] if k in ("reset", "startup_reset", "connect") else 0.0)
        if k in ("A", "B", "C") and not info["registered_at_failure"]:
            # nobody was told (no application attached at the failure), EZSP keeps running, and the three
            # concurrent calls take their turns: each may wait for the ones ahead of it to time out
            limit += 2 * B["cmd"]
        if c["end"] is None:
            if not info["hang"]:
                bad.append(("C10/termination/call-never-ended", f"{k} (phase {c['phase']}) never returned or raised"))
            continue
        ref = max(t_sil if t_sil is not None else tf, c["start"])
        if c["end"] > (t_sil if t_sil is not None else tf) and c["end"] - ref > limit + 1e-6:
            bad.append(("C10/termination/call-exceeded-bound",
                        f"{k} ended {c['end'] - ref:.2f}s after max(failure, issue); bound is {limit:.1f}s"))
    if len([k for k in info.get("open_at_failure", []) if k in ("A", "B", "C")]) >= 2:
        if all(info["calls"][k]["end"] is not None for k in ("A", "B", "C")):
            facts.add("queued_calls_released")
    # 5. nothing after a deliberate close
    if info.get("closed_at_failure"):
        # only what happens after the close is the close's doing: with the NCP silenced ahead of a timer-aligned
        # failure the host may, depending on how its timeouts are tuned, have run out of ASH attempts and asked for a
        # reset on its own before the workload ever reached the close
        rr_after = [e for e in rr if dc is None or e[1] > dc + 1e-9]
        if rr_after:
            bad.append(("C10/close/reset-requested-after-deliberate-close", f"{kind} after close() produced {rr_after[0]}"))
        else:
            facts.add("deliberate_close_silent")
        return bad, facts
    if not info["registered_at_failure"]:
        return bad, facts  # only bounded termination is demanded
    # 1. the application must be asked to reset
    observable = True
    if kind in ("silent", "naksilent"):
        # silence becomes observable when a DATA frame goes unacknowledged through the whole retry budget
        # (a frame written just before the NCP fell silent counts only if the NCP had not acknowledged it by then)
        def unacked(e):
            nxt = (e[3][1] + 1) % 8
            return not any(a[0] == "line" and a[2] == "n2h" and a[3] and a[1] >= e[1] and
                           ((a[3][0] == "A" and a[3][1] == nxt) or (a[3][0] == "D" and a[3][3] == nxt)) for a in trace)

        fd = next((e for e in trace if e[0] == "line" and e[2] == "h2n" and e[3] and e[3][0] == "D" and e[1] >= tf - 0.002
                   and unacked(e)), None)
        observable = fd is not None and (dc is None or dc >= fd[1] + B["ash"] + 0.01)
    if observable:
        if not rr:
            bad.append(("C10/report/no-reset-request",
                        f"{kind}({case.get('code')}) in phase {ph} with an application callback registered: no "
                        f"'_reset_controller_application' callback was observed"))
        else:
            facts.add("reset_request_observed")
            lim = B["ash"] + B["cmd"] if kind in ("silent", "naksilent") else 0.01
            first_after = rr[0][1] - tf
            if kind not in ("silent", "naksilent") and first_after > lim:
                bad.append(("C10/report/late-reset-request", f"{kind}: reset request {first_after:.3f}s after the failure"))
    # 2. after the request: refused at once, nothing written
    if rr:
        pr = info["probe"]
        if pr is None:
            bad.append(("C10/stopped/probe-did-not-run", "probe after the reset request did not finish"))
        else:
            if pr[0] in ("returned", "TimeoutError", "CancelledError") or pr[1] > 1e-6:
                bad.append(("C10/stopped/new-command-not-refused-at-once",
                            f"a command issued after the reset request ended with {pr[0]} after {pr[1]:.3f}s"))
            elif pr[2] != 0:
                bad.append(("C10/stopped/bytes-written-after-failure", f"{pr[2]} frame(s) were written after the reset request"))
            else:
                facts.add("new_command_refused_at_once")
        t_rr = rr[0][1]
        wr = [e for e in trace if e[0] == "line" and e[2] == "h2n" and e[1] > t_rr + 1e-9]
        if wr:
            bad.append(("C10/stopped/bytes-written-after-failure",
                        f"host wrote {len(wr)} frame(s) after the reset request, first {wr[0][3]} at +{wr[0][1] - t_rr:.3f}s"))
        if len(rr) > 1:
            facts.add("reset_requested_more_than_once")
    return bad, facts


def pretty(trace):
    out = []
    for e in trace:
        if e[0] == "line":
            out.append(f"{e[1] - 100:8.4f} {'host->ncp' if e[2] == 'h2n' else 'ncp->host'} {e[3]}")
        elif e[0] in ("ezsp_rx", "ezsp_tx", "ncp_tx", "ncp_rx"):
            continue
        else:
            out.append(f"{e[1] - 100:8.4f} {e[0]} {e[2:]}")
    return out


def kinds_for(tier):
    ks = [("error", 0x51), ("error", 0x80), ("rstack", 0x02), ("rstack", 0x77), ("silent", None), ("lost", None), ("eof", None),
          ("naksilent", 1), ("naksilent", 3)]
    if tier == "thorough":
        ks += [("rstack", c) for c in (0x00, 0x01, 0x03, 0x06, 0x09)] + [("error", 0x52)]
    return ks


def shards(tier, seed):
    out = []
    vs = [4, 8, 13, 14] if tier == "quick" else [4, 5, 7, 8, 9, 13, 14]
    for V in vs:
        for ki, (k, c) in enumerate(kinds_for(tier)):
            out.append({"version": V, "kind": k, "code": c, "tier": tier, "seed": seed})
    return out


def run_shard(desc) -> Acc:
    logmode.apply(desc)
    acc = Acc()
    install_status_contract(acc)
    V = desc["version"]
    # fault-free run: number of wire events
    trace0, info0 = run_case(V, {"kind": None})
    bad0, facts0 = judge(V, {"kind": None}, trace0, info0)
    acc.case()
    for key, msg in bad0:
        acc.violation(key, msg, {"version": V, "kind": None}, pretty(trace0)[:60])
    for f in facts0:
        acc.hit(f)
    n = info0.get("n_frames", 0)
    cases = []
    step = 1
    for i in range(0, n + 1, step):
        for off in (0.0, 0.0015):
            cases.append({"kind": desc["kind"], "code": desc["code"], "at": i, "offset": off})
    if desc["kind"] in ("lost", "eof", "error", "rstack"):
        for i in range(0, n + 1):
            for k in (0, 1):
                cases.append({"kind": desc["kind"], "code": desc["code"], "at": i, "align_timer": k})
    # the same crash points after a history in which the NCP had already failed once before any
    # application was attached (state kept from that first failure must not mute the second)
    for pf in ("rstack", "error"):
        tr_pf, info_pf = run_case(V, {"kind": None, "prefail": pf})
        acc.case()
        for key, msg in judge(V, {"kind": None, "prefail": pf}, tr_pf, info_pf)[0]:
            acc.violation(key, msg, {"version": V, "kind": None, "prefail": pf}, pretty(tr_pf)[:80])
        n_pf = info_pf.get("n_frames", 0)
        reg = next((e[1] for e in tr_pf if e[0] == "registered"), None)
        first = sum(1 for e in tr_pf if e[0] == "line" and reg is not None and e[1] < reg)
        stride = 2 if desc["tier"] == "thorough" else 5
        for i in range(first, n_pf + 1, stride):
            cases.append({"kind": desc["kind"], "code": desc["code"], "at": i, "offset": 0.0015, "prefail": pf})
    # ... and with the in-flight command's caller cancelled in the very iteration of the failure
    if desc["kind"] in ("error", "rstack", "lost", "eof"):
        for i in range(0, n + 1, 1 if desc["tier"] == "thorough" else 2):
            for off in (0.0015, 0.0035):
                cases.append({"kind": desc["kind"], "code": desc["code"], "at": i, "offset": off, "cancel_first": True})
    # histories with a lone XOFF (or XOFF ... XON) from the NCP before the failure
    reg0 = next((e[1] for e in trace0 if e[0] == "registered"), None)
    first0 = sum(1 for e in trace0 if e[0] == "line" and reg0 is not None and e[1] < reg0)
    for xo in ("x", "xx"):
        tr_x, info_x = run_case(V, {"kind": None, "xoff": xo})
        acc.case()
        bx, fx = judge(V, {"kind": None, "xoff": xo}, tr_x, info_x)
        for key, msg in bx:
            acc.violation(key, msg, {"version": V, "kind": None, "xoff": xo}, pretty(tr_x)[:80])
        for f in fx:
            acc.hit(f)
        for i in range(first0, n + 1, 2 if desc["tier"] == "thorough" else 4):
            cases.append({"kind": desc["kind"], "code": desc["code"], "at": i, "offset": 0.0015, "xoff": xo})
    # the deliberate close with commands in flight and queued - alone, and with the failure around it
    tr_c, info_c = run_case(V, {"kind": None, "close_busy": True})
    acc.case()
    bc, fc = judge(V, {"kind": None, "close_busy": True}, tr_c, info_c)
    for key, msg in bc:
        acc.violation(key, msg, {"version": V, "kind": None, "close_busy": True}, pretty(tr_c)[-60:])
    for f in fc:
        acc.hit(f)
    n_c = info_c.get("n_frames", n)
    for i in range(max(0, n - 4), n_c + 2):
        for off in (0.0, 0.0015):
            cases.append({"kind": desc["kind"], "code": desc["code"], "at": i, "offset": off, "close_busy": True})
    for case in cases:
        acc.case()
        trace, info = run_case(V, case)
        bad, facts = judge(V, case, trace, info)
        c2 = dict(case, version=V)
        for key, msg in bad[:3]:
            acc.violation(key, msg, c2, pretty(trace)[-70:])
        for f in facts:
            acc.hit(f)
        if info["t_fail"] is not None and not info.get("closed_at_failure"):
            acc.nontrivial((V, case["kind"], case.get("code"), case["at"], case.get("offset"), case.get("align_timer"), case.get("prefail"), case.get("cancel_first")))
            if info.get("cancelled_caller") and info["registered_at_failure"]:
                acc.hit("caller_cancelled_in_the_failure_iteration")
        for e in trace:
            acc.ev(e[0])
        if len(acc.samples) < 1 and info["phase_at_failure"] == "inflight":
            acc.sample({"case": c2, "phase": info["phase_at_failure"], "calls": info["calls"], "trace": pretty(trace)[:60]})
    return acc


def replay(case) -> Acc:
    acc = Acc()
    V = case.pop("version", 8)
    trace, info = run_case(V, case)
    bad, facts = judge(V, case, trace, info)
    print("\n".join(pretty(trace)))
    print(info["calls"], info["probe"], info["phase_at_failure"])
    for key, msg in bad:
        acc.violation(key, msg, case)
    return acc
