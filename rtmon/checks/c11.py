"""C11 - the reset handshake completes only on the NCP's software-reset acknowledgement.

Real Gateway + real AshProtocol on the virtual-time loop, a scripted peer on the wire side
and a recording stub as the application.  Every RSTACK code 0..255, ERROR codes, arrival
times around the reset timeout, prior traffic leaving the frame counters at every (tx, rx)
pair, and connection loss / EOF at every step (including the loop iteration in which the
reset timeout expires).
"""
from __future__ import annotations

from ..excfam import family

import asyncio
import random

from .. import ashref as R
from .. import vloop
from ..runner import Acc
from .. import logmode

PROPERTY = "C11"
LEVEL = "fault_enumeration"
RULE = (
    "A case = (prior traffic leaving host tx/rx counters at (i, j)) x (waiter: reset() or "
    "wait_for_startup_reset() under a caller timeout) x (peer script: RSTACK(code) / ERROR(code) / "
    "nothing, at a time from {before the request, in time, exactly the timeout instant before / "
    "after the timer, late, twice}) x (connection loss or EOF at a step from {none, before the "
    "request, while waiting, same loop iteration as the timeout, after completion}) x (optionally: an NCP DATA frame arriving between the RST and the RSTACK; one or two "
    "further reset requests on the same gateway after the first ended by completion, timeout or failure code).  RSTACK codes "
    "0..255 are enumerated completely; the other dimensions are crossed as listed in the shard "
    "plan.  Non-trivial = the waiter was released by a wire event, a loss or the timeout; distinct "
    "= distinct (case parameters) tuples, all different by construction."
)
ASSUMPTIONS = [
    "software-reset code 0x0B and the RST encoding 1A C0 38 BC 7E are protocol constants; "
    "RESET_TIMEOUT is read from the tree (bellows.uart.RESET_TIMEOUT)",
    "the application object handed to Gateway exposes enter_failed_state / connection_lost / "
    "frame_received as in the pinned tree",
    "connection_lost reaches the protocol through call_soon from an I/O callback (schedule model, DESIGN 2.1)",
    "ERROR frames carrying the software-reset code are outside the property's quantifier and not generated",
]
EXHAUSTIVE = {t: "all 256 RSTACK reset codes; all 64 (tx, rx) frame-counter pairs" for t in ("quick", "thorough")}
REACH = {
    t: ["rstack_codes_256", "counter_pairs_64", "completed_in_time", "timeout_no_answer", "late_rstack",
        "rstack_before_request", "rstack_twice", "rstack_at_boundary_before", "rstack_at_boundary_after",
        "error_frame_failure", "loss_before_request", "loss_while_waiting", "loss_same_iteration_as_timeout",
        "loss_after_completion", "eof_while_waiting", "startup_completed", "startup_loss",
        "startup_loss_same_iteration_as_timeout", "numbering_restarted_checked", "clean_close_while_waiting",
        "numbering_checked_after_reset", "numbering_checked_after_startup", "second_request_judged",
        "request_after_a_timed_out_request_completed", "ncp_frame_between_rst_and_rstack", "rst_write_failed",
        "host_frame_pending_at_reset", "queued_frame_numbered_from_zero", "old_frame_retransmitted_between_rst_and_rstack",
        "threaded_waiter_released_with_connection_error", "host_closes_the_port_while_waiting"]
    for t in ("quick", "thorough")
}
SOFTWARE = 0x0B
RST_BYTES = bytes.fromhex("1ac038bc7e")
EPS = 1e-6


class App:
    def __init__(self, tr, clock):
        self.tr, self.clock = tr, clock

    def enter_failed_state(self, code):
        self.tr.append(("app_failed", self.clock(), int(code) if isinstance(code, int) else repr(code)))

    def connection_lost(self, exc):
        self.tr.append(("app_lost", self.clock(), family(exc) if exc is not None else None))

    def frame_received(self, data):
        self.tr.append(("app_frame", self.clock(), bytes(data)))


class Wire:
    def __init__(self, tr, clock):
        self.tr, self.clock = tr, clock
        self.closing = False
        self.on_data = None
        self.fail_next = False

    def write(self, data):
        data = bytes(data)
        if self.fail_next:
            self.fail_next = False
            self.tr.append(("wr_failed", self.clock(), data))
            raise OSError("write failed")
        self.tr.append(("wr", self.clock(), data))
        frames, _ = R.split_wire(data)
        for cancel, fr, raw in frames:
            if fr is not None and fr.kind == "DATA" and self.on_data:
                self.on_data(fr)

    def is_closing(self):
        return self.closing

    def close(self):
        self.closing = True


def run_case(case):
    import bellows.ash as ash
    import bellows.uart as uart

    tr: list = []
    info = {"hang": None, "cl_raised": None}
    reset_timeout = float(uart.RESET_TIMEOUT)

    async def main(loop: vloop.VLoop):
        clock = loop.time
        app = App(tr, clock)
        gw = uart.Gateway(app)
        proto = ash.AshProtocol(gw)
        wire = Wire(tr, clock)
        proto.connection_made(wire)
        peer_tx = [0]

        def feed(b, label):
            tr.append(("rx", clock(), label))
            if label[0] == "rstack" and label[1] == SOFTWARE and case.get("pending") and hasattr(wire, "_post_reset"):
                wire._post_reset[0] = True
            proto.data_received(b)

        def auto_ack(fr):
            loop.io_at(clock(), feed, R.encode_ack((fr.frm + 1) % 8), ("ack", (fr.frm + 1) % 8))

        # -- prior traffic: leave host counters at (i, j)
        wire.on_data = auto_ack
        for k in range(case["tx"]):
            await gw.send_data(b"pre%d" % k)
        for k in range(case["rx"]):
            feed(R.encode_data(peer_tx[0], 0, case["tx"] % 8, b"cb%d" % k), ("data", peer_tx[0]))
            peer_tx[0] = (peer_tx[0] + 1) % 8
        await vloop.settle(loop, 3)
        pend = None
        if case.get("pending"):
            # a DATA frame of the host is still unacknowledged when the reset is requested
            wire.on_data = None
            pend = asyncio.ensure_future(gw.send_data(b"pending"))
            if case["pending"] == 2:
                # ... and a second one is waiting for its turn behind it
                pend2 = asyncio.ensure_future(gw.send_data(b"queued"))
            await vloop.settle(loop, 3)
        if case.get("stray"):
            # the prior traffic ended with stray control bytes from the NCP (a lone XOFF because its buffer was
            # full for a moment, XOFF + XON, a CANCEL): none of them is a frame, none of them changes what a
            # reset request has to do
            tr.append(("rx", clock(), ("stray", case["stray"])))
            proto.data_received(bytes.fromhex(case["stray"]))
            await vloop.settle(loop, 2)
        tr.append(("prior_done", clock()))

        def lose(kind):
            # as real transports do: the loss is noticed in an I/O callback, connection_lost is
            # then delivered through call_soon
            def _cl():
                tr.append(("lost", clock(), "close" if kind == "hostclose" else kind))
                if kind == "hostclose":
                    # the host itself closes the port (as EZSP.close() / enter_failed_state() do) with a waiter still
                    # pending; the transport then reports connection_lost(None), as transports do after close()
                    try:
                        gw.close()
                    except BaseException as e:  # noqa: BLE001
                        tr.append(("close_raised", clock(), repr(e)))
                wire.closing = True
                try:
                    if kind == "eof":
                        proto.eof_received()
                    else:
                        proto.connection_lost(OSError("serial gone") if kind == "error" else None)  # "close" / "hostclose": None
                except BaseException as e:  # noqa: BLE001
                    info["cl_raised"] = repr(e)
                    tr.append(("lost_raised", clock(), repr(e)))
            loop.call_soon(_cl)

        def wire_bytes(what, code):
            if what == "rstack":
                return R.encode_rstack(code)
            if what == "error":
                return R.encode_error(code)
            if what == "ackrstack":
                # the acknowledgement of the host's last pre-reset frame and the RSTACK in one read
                return R.encode_ack((case["tx"] + 1) % 8) + R.encode_rstack(code)
            if what == "rstack_then_acks":
                # RSTACK; from now on the (reset) NCP acknowledges what it receives
                return R.encode_rstack(code)
            if what == "ack":
                return R.encode_ack(code)
            if what == "dup":
                # the NCP retransmits the frame the host already took (its ACK got lost)
                return R.encode_data(code, 1, 0, b"cb%d" % ((case["rx"] - 1) if case["rx"] else 0))
            # a DATA frame of the NCP that was already on its way when the host asked for the reset
            return R.encode_data(code, 0, 0, b"in-flight")

        async def one_round(script, loss, waiter_kind, fail=None):
            round_start = len(tr)
            post_reset = [False]
            wire._post_reset = post_reset
            wire.on_data = auto_ack if not case.get("pending") else (lambda fr: auto_ack(fr) if post_reset[0] else None)
            if fail == "oserror":
                wire.fail_next = True
            elif fail == "closing":
                wire.closing = True
            for when, what, code in script:
                if when == "pre":
                    feed(wire_bytes(what, code), ("rstack" if what == "ackrstack" else what, code))
            if loss and loss[0] == "pre":
                lose(loss[1])
            await vloop.settle(loop, 3)

            t0 = clock()
            tr.append(("call", t0, waiter_kind))
            caller_timeout = case.get("caller_timeout", 1.0)

            async def waiter():
                try:
                    if waiter_kind == "reset":
                        await gw.reset()
                    else:
                        async with asyncio.timeout(caller_timeout):
                            await gw.wait_for_startup_reset()
                except asyncio.CancelledError:
                    raise
                except BaseException as e:  # noqa: BLE001
                    tr.append(("exc", clock(), family(e), str(e)[:80]))
                else:
                    tr.append(("ret", clock()))

            task = asyncio.ensure_future(waiter())
            await asyncio.sleep(0)
            deadline = t0 + (reset_timeout if waiter_kind == "reset" else caller_timeout)
            ts = [w for w in loop.pending_host_timers()]
            T = min(ts, key=lambda w: abs(w - deadline)) if ts else deadline
            tr.append(("deadline", T))

            def at(when, fn, *a):
                if when == "in0":
                    loop.io_at(t0 + 0.1, fn, *a)
                elif when == "in":
                    loop.io_at(t0 + 0.2, fn, *a)
                elif when == "in2":
                    loop.io_at(t0 + 0.4, fn, *a)
                elif when == "T-":
                    loop.io_at(T, fn, *a)
                elif when == "T+":
                    loop.io_after(T, fn, *a)
                elif when == "late":
                    loop.io_at(T + 0.7, fn, *a)

            for when, what, code in script:
                if when != "pre":
                    at(when, feed, wire_bytes(what, code), ("rstack" if what == "ackrstack" else what, code))
            if loss and loss[0] not in ("pre", "after"):
                at(loss[0], lose, loss[1])
            await asyncio.wait([task])
            await asyncio.sleep(1.5)  # let late events arrive
            tr.append(("waiter_done", clock()))
            completed = any(e[0] == "ret" for e in tr[round_start:])
            late_sw = any(e[0] == "rx" and e[2] == ("rstack", SOFTWARE) for e in tr[round_start:]) and not completed
            if completed and not (loss and loss[0] != "after"):
                # numbering restarted in both directions?  (also after a completed start-up wait)
                wire.on_data = None
                tr.append(("post_begin", clock()))
                mark = len(tr)
                snd = asyncio.ensure_future(gw.send_data(b"after-reset"))
                await asyncio.sleep(0)
                feed(R.encode_data(0, 0, 1, b"ncp-first"), ("data", 0))
                await vloop.settle(loop, 3)
                tr.append(("post_check", clock()))
                # acknowledge whatever the host sent so that later rounds start from a quiet link
                for e in tr[mark:]:
                    if e[0] == "wr":
                        for cancel, fr, raw in R.split_wire(e[2])[0]:
                            if fr is not None and fr.kind == "DATA":
                                feed(R.encode_ack((fr.frm + 1) % 8), ("ack", (fr.frm + 1) % 8))
                try:
                    await asyncio.wait_for(snd, 0.5)
                except BaseException:  # noqa: BLE001
                    pass
        loss = case.get("loss")  # (when, kind)
        await one_round(case["script"], loss, case["waiter"], case.get("fail"))
        # further reset requests on the same gateway (each judged like the first)
        for nxt in case.get("then", []):
            tr.append(("round", clock()))
            await asyncio.sleep(nxt.get("gap", 0.3))
            await one_round(nxt["script"], None, nxt.get("waiter", "reset"), nxt.get("fail"))
        if loss and loss[0] == "after":
            lose(loss[1])
            await vloop.settle(loop, 4)
        tr.append(("end", clock()))

    try:
        vloop.run(main)
    except vloop.Deadlock:
        info["hang"] = "loop ran dry with the waiter pending"
    return tr, info, reset_timeout


def judge(case, tr, info, reset_timeout):
    """Every reset request on the gateway is judged by the same rules, on its own segment."""
    segs = [[]]
    for e in tr:
        if e[0] == "round":
            segs.append([])
        else:
            segs[-1].append(e)
    subs = [case] + [dict(waiter=n.get("waiter", "reset"), script=n["script"], tx=case["tx"], rx=case["rx"], fail=n.get("fail")) for n in case.get("then", [])]
    bad, facts = [], set()
    for k, (seg, sub) in enumerate(zip(segs, subs)):
        inf = dict(info)
        if k != len(segs) - 1:
            inf["hang"] = None
        if len(segs) < len(subs) and k == len(segs) - 1:
            pass
        b, f = judge_one(sub, seg, inf, reset_timeout)
        bad += [(key, (f"[request {k + 1} on this gateway] " if k else "") + msg) for key, msg in b]
        facts |= f
        if k:
            facts.add("second_request_judged")
            if any(e[0] == "ret" for e in seg) and not any(e[0] == "ret" for e in segs[k - 1]):
                facts.add("request_after_a_timed_out_request_completed")
    if len(segs) < len(subs) and not info["hang"]:
        bad.append(("C11/hang/waiter-left-pending", "a later reset request never started"))
    return bad, facts


def judge_one(case, tr, info, reset_timeout):
    bad = []
    facts = set()
    if info["hang"]:
        bad.append(("C11/hang/waiter-left-pending", info["hang"]))
    if info["cl_raised"]:
        bad.append(("C11/connection-lost/raises", f"connection_lost/eof_received raised {info['cl_raised']}"))
    t_call = next((e[1] for e in tr if e[0] == "call"), None)
    T = next((e[1] for e in tr if e[0] == "deadline"), None)
    out = next((e for e in tr if e[0] in ("ret", "exc")), None)
    waiter = case["waiter"]
    if t_call is None:
        return bad, facts
    if case.get("fail"):
        # the RST could not be written (write error / port closing): the request must end at once
        # with an error - and must leave nothing behind that makes a later request hang
        if out is None:
            if not info["hang"]:
                bad.append(("C11/hang/waiter-left-pending", "reset() whose RST write failed neither returned nor raised"))
        elif out[0] == "ret":
            bad.append(("C11/completion/without-software-rstack", "reset() returned although its RST could not be written"))
        elif out[1] - t_call > reset_timeout + 1e-5:
            bad.append(("C11/timeout/not-the-reset-timeout", f"reset() whose RST could not be written raised {out[2]} only {out[1] - t_call:.3f}s later"))
        else:
            facts.add("rst_write_failed")
        return bad, facts
    # request bytes
    if waiter == "reset":
        ci = next(i for i, e in enumerate(tr) if e[0] == "call")
        wr = [e for e in tr[ci:] if e[0] == "wr" and abs(e[1] - t_call) < EPS]
        lost_pre = case.get("loss") and case["loss"][0] == "pre"
        if not lost_pre:
            if not wr or wr[0][2] != RST_BYTES:
                bad.append(("C11/request/not-cancel-prefixed-rst",
                            f"reset() wrote {[w[2].hex() for w in wr]} instead of {RST_BYTES.hex()}"))
    # events while waiting (strictly: delivered after the call and before the outcome)
    def between(e):
        return t_call - EPS <= e[1] and (out is None or tr.index(e) < tr.index(out))

    sw = [e for e in tr if e[0] == "rx" and e[2] == ("rstack", SOFTWARE) and between(e) and tr.index(e) > tr.index(next(x for x in tr if x[0] == "call"))]
    losses = [e for e in tr if e[0] == "lost" and between(e)]
    if out is None:
        if not info["hang"]:
            bad.append(("C11/hang/waiter-left-pending", "waiter neither returned nor raised"))
        return bad, facts
    if out[0] == "ret":
        if not sw:
            bad.append(("C11/completion/without-software-rstack",
                        f"{waiter} completed at +{out[1] - t_call:.3f}s although no RSTACK(0x0B) arrived while it waited"))
        else:
            facts.add("completed_in_time" if waiter == "reset" else "startup_completed")
    else:
        name = out[2]
        if losses:
            # released with the connection error (the reason given, or a connection-reset error
            # for a clean close / EOF); at the very timeout instant a timeout is also acceptable
            at_T = T is not None and abs(losses[0][1] - T) < 1e-5
            kind = losses[0][2]
            want = ("OSError", "ConnectionError")  # the reason given, or a connection error of the library's own choosing
            ok = name in want or (at_T and name in ("TimeoutError",)) or \
                (case.get("loss", [None])[0] == "pre" and waiter == "reset")
            if not ok:
                bad.append(("C11/connection-lost/waiter-not-released-with-connection-error",
                            f"{waiter} raised {name} after a connection loss ({kind})"))
            if abs(out[1] - losses[0][1]) > 1e-5 and not (at_T and name == "TimeoutError"):
                bad.append(("C11/connection-lost/late-release",
                            f"waiter released {out[1] - losses[0][1]:.3f}s after the loss"))
        elif name == "TimeoutError":
            if T is not None and abs(out[1] - T) > 1e-5:
                bad.append(("C11/timeout/wrong-instant", f"timeout raised at +{out[1] - t_call:.4f}s, expected +{T - t_call:.4f}s"))
            if waiter == "reset" and abs((T - t_call) - reset_timeout) > 1e-5:
                bad.append(("C11/timeout/not-the-reset-timeout", f"deadline is {T - t_call:.3f}s after the call, RESET_TIMEOUT is {reset_timeout}"))
            early_sw = [e for e in sw if e[1] < T - 1e-5]
            if early_sw:
                bad.append(("C11/completion/software-rstack-ignored",
                            f"RSTACK(0x0B) arrived at +{early_sw[0][1] - t_call:.3f}s but {waiter} raised a timeout"))
            facts.add("timeout_no_answer")
        else:
            if not (case.get("loss") and case["loss"][0] == "pre"):
                bad.append(("C11/outcome/unexpected-exception", f"{waiter} raised {name}: {out[3]}"))
    # failure codes -> application.enter_failed_state(code), never completion
    for e in tr:
        if e[0] == "rx" and e[2][0] in ("rstack", "error") and isinstance(e[2][1], int):
            what, code = e[2]
            if what == "rstack" and code == SOFTWARE:
                continue
            lost_before = any(x[0] == "lost" and tr.index(x) < tr.index(e) for x in tr)
            if lost_before:
                continue
            rep = [x for x in tr if x[0] == "app_failed" and abs(x[1] - e[1]) < EPS and x[2] == code]
            if len(rep) != 1:
                bad.append((f"C11/failure/{what}-not-reported-as-ncp-failure",
                            f"{what.upper()}(0x{code:02x}) at +{e[1] - t_call:.3f}s led to {len(rep)} enter_failed_state({code}) calls"))
            if what == "error":
                facts.add("error_frame_failure")
    # loss -> application told (except deliberate close: exc None)
    for e in tr:
        if e[0] == "lost":
            told = [x for x in tr if x[0] == "app_lost" and abs(x[1] - e[1]) < EPS]
            if e[2] in ("error", "eof") and len(told) != 1 and not info["cl_raised"]:
                bad.append(("C11/connection-lost/application-not-told", f"loss ({e[2]}) reported {len(told)} times to the application"))
            if e[2] == "close" and told:
                bad.append(("C11/connection-lost/clean-close-reported", "a clean close was reported to the application as a loss"))
    if case.get("pending") and out[0] == "ret":
        # every new DATA frame written after the RSTACK - the one that was queued at the reset and the
        # ones submitted later - is numbered 0, 1, 2, ... in the order written
        ir = next((i for i, e in enumerate(tr) if e[0] == "rx" and e[2] == ("rstack", SOFTWARE)), None)
        if ir is not None:
            frms = []
            for e in tr[ir:]:
                if e[0] == "wr":
                    for cancel, fr, raw in R.split_wire(e[2])[0]:
                        if fr is not None and fr.kind == "DATA" and not fr.retx:
                            frms.append((fr.frm, fr.payload[:12]))
            if [f for f, _ in frms] != [k % 8 for k in range(len(frms))]:
                bad.append(("C11/numbering/host-tx-not-restarted",
                            f"DATA frames written after the RSTACK carry numbers {frms}, expected 0, 1, 2, ..."))
            elif frms:
                facts.add("queued_frame_numbered_from_zero" if case["pending"] == 2 else "numbering_checked_with_pending_frame")
    seen_up = {}
    for e in tr:
        if e[0] == "app_frame" and e[2].startswith(b"cb"):
            seen_up[e[2]] = seen_up.get(e[2], 0) + 1
    for pl, n_ in seen_up.items():
        if n_ > 1:
            bad.append(("C11/numbering/old-frame-delivered-again",
                        f"payload {pl!r}, already handed up before the reset was requested, was handed up {n_} times"))
    if any(what == "dup" for w, what, c in case["script"]) and not any(n_ > 1 for n_ in seen_up.values()):
        facts.add("old_frame_retransmitted_between_rst_and_rstack")
    # numbering after a completed handshake
    pc = next((e for e in tr if e[0] == "post_check"), None)
    if pc is not None:
        seg = tr[next(i for i, e in enumerate(tr) if e[0] == "post_begin"):tr.index(pc)]
        facts.add("numbering_checked_after_" + waiter)
        datas = []
        acks = []
        for e in seg:
            if e[0] == "wr":
                for cancel, fr, raw in R.split_wire(e[2])[0]:
                    if fr is not None and fr.kind == "DATA" and fr.payload == b"after-reset":
                        datas.append(fr)
                    if fr is not None and fr.kind in ("ACK", "NAK"):
                        acks.append(fr)
        if (not datas or datas[0].frm != 0) and case.get("pending") != 2:  # (pending == 2: judged above)
            bad.append(("C11/numbering/host-tx-not-restarted", f"first host DATA after the handshake: {[d.sig() for d in datas[:1]]}"))
        if not acks or acks[0].kind != "ACK" or acks[0].ack != 1:
            bad.append(("C11/numbering/host-rx-not-restarted", f"peer DATA frmNum 0 after the handshake answered with {[a.sig() for a in acks[:1]]}"))
        if not any(e[0] == "app_frame" and e[2] == b"ncp-first" for e in seg):
            bad.append(("C11/numbering/first-frame-not-delivered", "peer DATA frmNum 0 after the handshake was not handed up"))
        facts.add("numbering_restarted_checked")
    return bad, facts


def pretty(tr):
    t0 = next((e[1] for e in tr if e[0] == "call"), 100.0)
    out = []
    for e in tr:
        if e[0] == "wr":
            out.append(f"{e[1] - t0:9.4f} host-> {e[2].hex()}")
        elif e[0] == "deadline":
            out.append(f"{e[1] - t0:9.4f} (deadline)")
        else:
            out.append(f"{e[1] - t0:9.4f} {e[0]} {e[2:]}")
    return out


def gen_cases(tier, seed):
    rnd = random.Random(seed)
    cases = []
    pairs = [(i, j) for i in range(8) for j in range(8)]
    # A. all 256 RSTACK codes, in time, rotating through the counter pairs
    for code in range(256):
        i, j = pairs[(code * 7 + seed) % 64]
        cases.append({"waiter": "reset", "tx": i, "rx": j, "script": [("in", "rstack", code)]})
    # all 64 counter pairs with a clean completion
    for (i, j) in pairs:
        cases.append({"waiter": "reset", "tx": i, "rx": j, "script": [("in", "rstack", SOFTWARE)]})
    # ... and after stray flow-control / cancel bytes from the NCP
    for k, (i, j) in enumerate(pairs):
        if tier == "quick" and k % 3:
            continue
        for stray in ("13", "1311", "11", "1a", "1313"):
            cases.append({"waiter": "reset", "tx": i, "rx": j, "stray": stray, "script": [("in", "rstack", SOFTWARE)]})
        cases.append({"waiter": "reset", "tx": i, "rx": j, "stray": "13", "script": [("in", "rstack", 0x02)]})
        cases.append({"waiter": "reset", "tx": i, "rx": j, "stray": "13", "script": []})
    codes = [0x00, 0x01, 0x02, 0x03, 0x06, 0x09, 0x51, 0x80, 0xFF] if tier == "quick" else list(range(0, 256, 5))
    err_codes = [0x51, 0x52, 0x53, 0x80, 0x02, 0x00, 0x01] if tier == "quick" else [c for c in range(256) if c != SOFTWARE]
    whens = ["pre", "in", "T-", "T+", "late"]
    ntx = [(0, 0), (3, 5), (7, 7), (1, 0), (0, 1)] if tier == "quick" else [(0, 0), (1, 0), (0, 1), (3, 5), (7, 7), (4, 2), (2, 6), (6, 3)]
    # B. timing of the software RSTACK and of other codes / ERROR
    for (i, j) in ntx:
        for w in whens:
            cases.append({"waiter": "reset", "tx": i, "rx": j, "script": [(w, "rstack", SOFTWARE)]})
            for c in codes[:4] if tier == "quick" else codes:
                cases.append({"waiter": "reset", "tx": i, "rx": j, "script": [(w, "rstack", c)]})
            for c in err_codes[:3] if tier == "quick" else err_codes[::7]:
                cases.append({"waiter": "reset", "tx": i, "rx": j, "script": [(w, "error", c)]})
        cases.append({"waiter": "reset", "tx": i, "rx": j, "script": []})
        cases.append({"waiter": "reset", "tx": i, "rx": j, "script": [("in", "rstack", SOFTWARE), ("in2", "rstack", SOFTWARE)]})
        cases.append({"waiter": "reset", "tx": i, "rx": j, "script": [("pre", "rstack", SOFTWARE), ("in", "rstack", SOFTWARE)]})
        cases.append({"waiter": "reset", "tx": i, "rx": j, "script": [("pre", "rstack", SOFTWARE)]})
        cases.append({"waiter": "reset", "tx": i, "rx": j, "script": [("in", "rstack", 0x02), ("in2", "rstack", SOFTWARE)]})
        cases.append({"waiter": "reset", "tx": i, "rx": j, "script": [("in", "error", 0x51), ("in2", "rstack", SOFTWARE)]})
    for c in err_codes:
        cases.append({"waiter": "reset", "tx": c % 8, "rx": (c // 8) % 8, "script": [("in", "error", c)]})
    # C. connection loss / EOF / clean close at each step
    for (i, j) in ntx:
        for lw in ["pre", "in", "T-", "T+", "late", "after"]:
            for kind in ["error", "eof", "close", "hostclose"]:
                for script in ([], [("in2", "rstack", SOFTWARE)], [("in", "rstack", 0x02)]):
                    if lw in ("pre",) and script:
                        continue
                    cases.append({"waiter": "reset", "tx": i, "rx": j, "script": script, "loss": (lw, kind)})
    # C2. ... with a DATA frame of the host still unacknowledged (and another queued behind it) at the loss
    for (i, j) in ntx[:3]:
        for lw in ["pre", "in", "T-", "late"]:
            for kind in ["error", "eof", "close"]:
                for pn in (1, 2):
                    cases.append({"waiter": "reset", "tx": i, "rx": j, "pending": pn, "script": [], "loss": (lw, kind)})
                cases.append({"waiter": "startup", "tx": i, "rx": j, "pending": 1, "script": [], "loss": (lw if lw != "pre" else "in", kind)})
    # D. start-up reset waiter under a caller timeout
    for (i, j) in ntx[:2]:
        for w in whens:
            for c in [SOFTWARE, 0x02, 0x00]:
                cases.append({"waiter": "startup", "tx": i, "rx": j, "script": [(w, "rstack", c)]})
        cases.append({"waiter": "startup", "tx": i, "rx": j, "script": []})
        for lw in ["in", "T-", "T+", "late"]:
            for kind in ["error", "eof", "close", "hostclose"]:
                cases.append({"waiter": "startup", "tx": i, "rx": j, "script": [], "loss": (lw, kind)})
    # E. several reset requests on one gateway: every one of them must write its own RST and end
    #    by RSTACK(0x0B) or by the reset timeout, whatever happened to the previous one
    SW_IN = [("in", "rstack", SOFTWARE)]
    for (i, j) in ntx:
        for first in ([], [("late", "rstack", SOFTWARE)], [("T+", "rstack", SOFTWARE)], SW_IN, [("in", "rstack", 0x02)], [("in", "error", 0x51)]):
            for second in (SW_IN, [], [("pre", "rstack", SOFTWARE), ("in", "rstack", SOFTWARE)]):
                cases.append({"waiter": "reset", "tx": i, "rx": j, "script": first, "then": [{"script": second}]})
        cases.append({"waiter": "reset", "tx": i, "rx": j, "script": [], "then": [{"script": []}, {"script": SW_IN}]})
        cases.append({"waiter": "startup", "tx": i, "rx": j, "script": [], "then": [{"script": SW_IN}]})
        cases.append({"waiter": "startup", "tx": i, "rx": j, "script": SW_IN, "then": [{"script": SW_IN}, {"script": SW_IN, "waiter": "startup"}]})
    # E2. the RST itself cannot be written (write error, port closing): the request fails at once, and
    #     the next request behaves like any other
    for (i, j) in ntx[:2]:
        for second in (SW_IN, []):
            cases.append({"waiter": "reset", "tx": i, "rx": j, "script": [], "fail": "oserror", "then": [{"script": second}]})
            cases.append({"waiter": "reset", "tx": i, "rx": j, "script": SW_IN, "then": [{"script": [], "fail": "oserror"}, {"script": second}]})
        cases.append({"waiter": "reset", "tx": i, "rx": j, "script": [], "fail": "closing", "then": [{"script": [], "fail": "closing"}]})
    # E3. a DATA frame of the host is still unacknowledged when the reset is requested; its ACK comes in
    #     the same read as the RSTACK, or right after it
    for (i, j) in (pairs if tier == "thorough" else ntx + [(1, 0), (2, 6), (6, 1)]):
        nack = (i + 1) % 8
        cases.append({"waiter": "reset", "tx": i, "rx": j, "pending": 1, "script": [("in", "ackrstack", SOFTWARE)]})
        cases.append({"waiter": "reset", "tx": i, "rx": j, "pending": 1, "script": [("in0", "ack", nack), ("in", "rstack", SOFTWARE)]})
        cases.append({"waiter": "reset", "tx": i, "rx": j, "pending": 2, "script": [("in", "ackrstack", SOFTWARE)]})
        cases.append({"waiter": "reset", "tx": i, "rx": j, "pending": 2, "script": [("in0", "ack", nack), ("in", "rstack", SOFTWARE)]})
    # F. an NCP frame that was already on its way arrives between the RST and the RSTACK (old numbering:
    #    the next expected number, or zero): whatever the host does with it, numbering restarts at the RSTACK
    for (i, j) in (pairs if tier == "thorough" else ntx + [(0, 1), (2, 0), (5, 3)]):
        for frm in sorted({j, 0, (j + 1) % 8}):
            cases.append({"waiter": "reset", "tx": i, "rx": j, "script": [("in0", "data", frm), ("in", "rstack", SOFTWARE)]})
    # F2. ... or the NCP retransmits, between RST and RSTACK, the frame the host had already taken
    for (i, j) in [(0, 1), (3, 1), (5, 1), (2, 2), (7, 7), (4, 8 - 3)]:
        cases.append({"waiter": "reset", "tx": i, "rx": j, "script": [("in0", "dup", (j - 1) % 8), ("in", "rstack", SOFTWARE)]})
        cases.append({"waiter": "reset", "tx": i, "rx": j, "script": [("in0", "dup", (j - 1) % 8)], "then": [{"script": [("in", "rstack", SOFTWARE)]}]})
    # G. completed start-up wait after prior traffic, all counter pairs
    for (i, j) in (pairs if tier == "thorough" else pairs[::5]):
        cases.append({"waiter": "startup", "tx": i, "rx": j, "script": [("in", "rstack", SOFTWARE)]})
    return cases


def shards(tier, seed):
    n = 16 if tier == "quick" else 48
    out = [{"tier": tier, "seed": seed, "k": k, "n": n} for k in range(n)]
    out.append({"tier": tier, "seed": seed, "part": "threaded", "rounds": 12 if tier == "quick" else 60, "debuglog": False})
    return out


def run_threaded(desc) -> Acc:
    """The same waiter-release clause with the gateway living in its own thread (use_thread=True, the
    default in production): real bellows.uart.connect, real EventLoopThread / ThreadsafeProxy, a fake
    serial port inside the worker loop.  Real time is used here; a waiter that is not released within
    3 s counts as left pending (the loss is delivered a few milliseconds after the request)."""
    import zigpy.serial

    import bellows.uart as uart
    from .. import ncpsim

    acc = Acc()
    rnd = random.Random(desc["seed"])

    class ThreadApp:
        def __init__(self):
            self.events = []

        def enter_failed_state(self, code):
            self.events.append(("failed", code))

        def connection_lost(self, exc):
            self.events.append(("lost", family(exc) if exc is not None else None))

        def frame_received(self, data):
            self.events.append(("frame", bytes(data)))

    class FakeTr:
        def __init__(self):
            self.writes = []
            self.closing = False

        def write(self, data):
            self.writes.append(bytes(data))

        def is_closing(self):
            return self.closing

        def close(self):
            self.closing = True

    async def one(waiter, kind, delay):
        box = {}
        saved = zigpy.serial.create_serial_connection

        async def fake_serial(loop, protocol_factory, **kw):
            proto = protocol_factory()
            tr = FakeTr()
            box.update(loop=loop, proto=proto, tr=tr)
            loop.call_soon(proto.connection_made, tr)
            return tr, proto

        zigpy.serial.create_serial_connection = fake_serial
        app = ThreadApp()
        try:
            gw = await uart.connect(ncpsim.device_config("/dev/ttyVERIF"), app, use_thread=True)
        finally:
            zigpy.serial.create_serial_connection = saved
        case = {"part": "threaded", "waiter": waiter, "loss": kind, "delay": delay}
        acc.case()

        async def wait():
            if waiter == "reset":
                return await gw.reset()
            return await gw.wait_for_startup_reset()

        task = asyncio.ensure_future(wait())
        # wait until the request has really started inside the worker thread (RST written / waiter
        # registered), so that the loss finds a *pending* waiter; then an optional extra delay
        inner = getattr(gw, "_obj", None)
        for _ in range(400):
            if waiter == "reset" and box["tr"].writes:
                break
            if waiter == "startup" and getattr(inner, "_startup_reset_future", None) is not None:
                break
            await asyncio.sleep(0.005)
        else:
            acc.notes.append("threaded: could not observe the start of the request; waited 2 s instead")
        await asyncio.sleep(delay)

        def lose():
            box["tr"].closing = True
            if kind == "eof":
                box["proto"].eof_received()
            else:
                box["proto"].connection_lost(OSError("serial port gone"))

        box["loop"].call_soon_threadsafe(lose)
        try:
            r = await asyncio.wait_for(asyncio.shield(task), 3.0)
            out = ("returned", r)
        except asyncio.TimeoutError:
            out = ("pending",)
            task.cancel()
        except asyncio.CancelledError:
            out = ("CancelledError",)
        except BaseException as ex:  # noqa: BLE001
            out = (family(ex),)
        want_any = ("OSError", "ConnectionError")
        if out == ("pending",):
            acc.violation("C11/hang/waiter-left-pending", f"threaded gateway: {waiter} waiter still pending 3 s after the connection was lost ({kind})", case)
        elif out[0] not in want_any:
            acc.violation("C11/connection-lost/waiter-not-released-with-connection-error",
                          f"threaded gateway: {waiter} waiter ended with {out} after a connection loss ({kind}), expected a connection error", case)
        else:
            acc.hit("threaded_waiter_released_with_connection_error")
        await asyncio.sleep(0.05)
        if kind == "error" and not any(e[0] == "lost" for e in app.events):
            acc.violation("C11/connection-lost/application-not-told", "threaded gateway: the application was not told about the loss", case)
        acc.nontrivial(("threaded", waiter, kind, delay))

    async def main():
        for r in range(desc["rounds"]):
            await one(rnd.choice(["reset", "reset", "startup"]), rnd.choice(["error", "eof"]), rnd.choice([0.0, 0.002, 0.02]))

    asyncio.run(main())
    acc.sample({"threaded_gateway": True, "rounds": desc["rounds"]})
    return acc


def run_one(acc: Acc, case):
    acc.case()
    tr, info, rt = run_case(case)
    bad, facts = judge(case, tr, info, rt)
    for key, msg in bad[:3]:
        acc.violation(key, msg, case, pretty(tr)[-40:])
    for f in facts:
        acc.hit(f)
    sc = case["script"]
    loss = case.get("loss")
    if case["waiter"] == "reset":
        for w, what, c in sc:
            if what == "rstack" and c == SOFTWARE:
                acc.hit({"pre": "rstack_before_request", "T-": "rstack_at_boundary_before",
                         "T+": "rstack_at_boundary_after", "late": "late_rstack"}.get(w, "rstack_in_time"))
        if len([1 for w, what, c in sc if what == "rstack" and c == SOFTWARE and w in ("in", "in2")]) == 2:
            acc.hit("rstack_twice")
        if loss:
            acc.hit({"pre": "loss_before_request", "in": "loss_while_waiting", "T-": "loss_same_iteration_as_timeout",
                     "T+": "loss_after_timeout", "late": "loss_late", "after": "loss_after_completion"}[loss[0]])
            if loss[1] == "eof" and loss[0] == "in":
                acc.hit("eof_while_waiting")
            if loss[1] == "close" and loss[0] == "in":
                acc.hit("clean_close_while_waiting")
            if loss[1] == "hostclose" and loss[0] == "in":
                acc.hit("host_closes_the_port_while_waiting")
    else:
        if loss:
            acc.hit("startup_loss")
            if loss[0] == "T-":
                acc.hit("startup_loss_same_iteration_as_timeout")
    if case.get("pending") and any(e[0] == "post_check" for e in tr):
        acc.hit("host_frame_pending_at_reset")
    if any(what == "data" for w, what, c in sc):
        acc.hit("ncp_frame_between_rst_and_rstack")
    for w, what, c in sc:
        if what == "rstack" and w == "in" and len(sc) == 1 and case["waiter"] == "reset" and not case.get("then"):
            acc.reach["code:%d" % c] += 1
    acc.reach["pair:%d:%d" % (case["tx"], case["rx"])] += 1
    if any(e[0] in ("ret", "exc") for e in tr):
        acc.nontrivial(repr(case))
    for e in tr:
        acc.ev(e[0])
    return tr, bad


def run_shard(desc) -> Acc:
    import logging

    logmode.apply(desc)
    if desc.get("part") == "threaded":
        return run_threaded(desc)
    acc = Acc()
    for i, case in enumerate(gen_cases(desc["tier"], desc["seed"])):
        if i % desc["n"] != desc["k"]:
            continue
        tr, bad = run_one(acc, case)
        if len(acc.samples) < 2 and case.get("loss"):
            acc.sample({"case": case, "trace": pretty(tr)[:24]})
    return acc


def post_merge(reach, tier, events=None):
    codes = [k for k in reach if k.startswith("code:")]
    if len(codes) == 256:
        reach["rstack_codes_256"] = 256
    prs = [k for k in reach if k.startswith("pair:")]
    if len(prs) == 64:
        reach["counter_pairs_64"] = 64
    for k in codes + prs:
        del reach[k]


def replay(case) -> Acc:
    acc = Acc()
    if isinstance(case.get("loss"), list):
        case["loss"] = tuple(case["loss"])
    case["script"] = [tuple(x) for x in case["script"]]
    for n in case.get("then", []):
        n["script"] = [tuple(x) for x in n["script"]]
    tr, bad = run_one(acc, case)
    print("\n".join(pretty(tr)))
    return acc
