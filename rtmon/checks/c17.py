"""C17 - event-completed operations never miss their completing event or leak listeners.

formNetwork, leaveNetwork, the application's network bring-up and startScan on the real EZSP
(frame mode, virtual time).  For each operation every order of its event multiset - command
response (each status class), matching stack-status event, non-matching status events, result
callbacks, completion callback, expiry of the operation timeout, caller cancellation - is
played, three operations per run.  The expected outcome and its instant are computed from the
delivery timestamps; after every operation the listener / callback population must be back
at its baseline and injected events must not reach anything that belonged to the operation.
"""
from __future__ import annotations

from ..excfam import family

import asyncio
import itertools
import logging
import random

from .. import vloop, ncpsim, ncpmodel, appharness
from ..runner import Acc
from .. import logmode
from ..contracts import install_status_contract

PROPERTY = "C17"
LEVEL = "exploration"
RULE = (
    "A case = (protocol version, operation, ordered event list).  Event lists are all distinct "
    "permutations of every sub-multiset (up to 6 events) of {response (ok or one of three refusal "
    "statuses), matching status event, two non-matching status events, timeout expiry, caller "
    "cancellation} for form / leave / bring-up, and of {response, 0..3 result callbacks, completion "
    "(ok or failed), caller cancellation, one result delivered before the scan is issued} for scans. "
    "All lists of a shard are played one after the other on one EZSP instance; 'quiet' shards deliver nothing "
    "but the operations' own completing events, so that the same status value repeats with nothing in between.  Non-trivial = the list is not just [response ok, matching "
    "event]; distinct = distinct (version, operation, event list)."
)
ASSUMPTIONS = [
    "operation timeouts (NETWORK_OPS_TIMEOUT, NETWORK_UP_TIMEOUT_S, EZSP_CMD_TIMEOUT) are read from the tree",
    "status events delivered before the operation was issued and scan results delivered after the "
    "completion callback are not constrained",
    "listener population is observed through len(ezsp._callbacks) and the stack-status listener lists when "
    "those attributes exist, and always through 'exception in handler' log records when events are "
    "injected after the operation ended",
]
REACH = {t: ["event_before_response", "event_after_timeout", "cancel_before_response", "cancel_after_response",
             "refused", "returned", "timeout_waiting_event", "command_timeout", "scan_completion_before_response",
             "scan_results_in_order", "scan_pre_issue_result_excluded", "repeated_operation", "op_form", "op_leave",
             "op_bringup", "op_scan", "leak_probe_done", "completed_on_a_repeated_status_value", "op_overlap",
             "overlapping_registrations_checked", "non_lifo_lifetimes", "op_status_overlap", "several_listeners_for_one_status_event",
             "status_overlap_one_cancelled"] for t in ("quick", "thorough")}
SHARD_TIMEOUT = {"quick": 900, "thorough": 3600}


class ExcLog(logging.Handler):
    def __init__(self):
        super().__init__(logging.DEBUG)
        self.hits = []

    def emit(self, record):
        if record.levelno >= logging.ERROR or record.exc_info:
            try:
                self.hits.append(record.getMessage()[:200])
            except Exception:  # noqa: BLE001
                self.hits.append("unformattable record")


def perms(pool, maxlen):
    seen = set()
    for n in range(0, min(maxlen, len(pool)) + 1):
        for comb in itertools.combinations(range(len(pool)), n):
            items = [pool[i] for i in comb]
            for p in itertools.permutations(items):
                if p not in seen:
                    seen.add(p)
                    yield list(p)


def status_op_cases(tier):
    out = []
    for R in ("Rok", "Rref1", "Rref2", "Rref3", None):
        pool = ([R] if R else []) + ["M", "N1", "N2", "X", "C"]
        if tier == "quick" and R in ("Rref2", "Rref3"):
            pool = [R, "M", "N1", "C"]
        for p in perms(pool, 6):
            out.append(p)
    return out


def scan_cases(tier):
    out = []
    for R in ("Rok", "Rref1"):
        for D in ("Dok", "Dfail"):
            for nk in (0, 1, 2, 3):
                pool = [R, D] + ["K%d" % i for i in range(nk)]
                for p in itertools.permutations(pool):
                    # result callbacks arrive in their own order
                    ks = [e for e in p if e.startswith("K")]
                    if ks != sorted(ks):
                        continue
                    out.append(list(p))
                    if tier != "quick" or nk <= 1:
                        for ci in range(len(p) + 1):
                            out.append(list(p[:ci]) + ["C"] + list(p[ci:]))
    return out


def shards(tier, seed):
    vs = [4, 8, 14] if tier == "quick" else [4, 5, 7, 8, 11, 13, 14]
    out = []
    for v in vs:
        for op in ("form", "leave", "bringup", "scan"):
            out.append({"version": v, "op": op, "tier": tier, "seed": seed})
        out.append({"version": v, "op": "overlap", "tier": tier, "seed": seed})
        out.append({"version": v, "op": "status_overlap", "tier": tier, "seed": seed})
        for op in ("form", "leave", "bringup"):
            # "quiet" runs: nothing but the operations' own completing events is ever delivered (no
            # probe events, no non-matching statuses), so consecutive operations on one EZSP see the
            # same status value again and again with nothing in between
            out.append({"version": v, "op": op, "tier": tier, "seed": seed, "quiet": True})
    return out


def run_shard(desc) -> Acc:
    import bellows.ezsp as e
    import bellows.ezsp.protocol as pm
    import bellows.types as t
    import bellows.zigbee.application as A

    logging.disable(logging.NOTSET)
    logging.getLogger().setLevel(logging.CRITICAL)
    acc = Acc()
    install_status_contract(acc)
    V, op = desc["version"], desc["op"]
    if op == "overlap":
        return run_overlap(desc)
    if op == "status_overlap":
        return run_status_overlap(desc)
    CMD_T = float(pm.EZSP_CMD_TIMEOUT)
    OPS_T = float(e.NETWORK_OPS_TIMEOUT)
    UP_T = float(A.NETWORK_UP_TIMEOUT_S)
    T = UP_T if op == "bringup" else OPS_T
    cases = scan_cases(desc["tier"]) if op == "scan" else status_op_cases(desc["tier"])
    quiet = bool(desc.get("quiet"))
    if quiet:
        cases = [c for c in cases if "N1" not in c and "N2" not in c]
        cases = cases + cases  # every list is played again later in the shuffled run
    rnd = random.Random(desc["seed"] + V)
    elog = ExcLog()
    lg = logging.getLogger("bellows.ezsp")
    lg.addHandler(elog)
    # a third of the shards run with DEBUG logging on (records are formatted by the sink; the handler
    # above still keeps only errors / handler exceptions)
    lg.setLevel(logging.DEBUG if desc.get("debuglog") else logging.ERROR)
    if desc.get("debuglog"):
        from ..logmode import FormatSink

        sink_ = FormatSink()
        lg.addHandler(sink_)
        for nm_ in ("bellows.zigbee", "bellows.uart", "bellows.ash"):
            l2 = logging.getLogger(nm_)
            l2.setLevel(logging.DEBUG)
            l2.propagate = False
            l2.addHandler(sink_)
        acc.hit("debuglog_shards")
    lg.propagate = False
    acc.hit("op_" + op)

    async def main(loop):
        clock = loop.time
        if op == "bringup":
            ap = appharness.AppStack(loop, V)
            try:
                await ap.connect(start=False)
            except BaseException as ex:  # noqa: BLE001
                acc.violation("C17/setup/fault-free-application-connect-failed", repr(ex), {"version": V})
                return
            ez, ncp, app = appharness.ezsp_of(ap.app), ap.ncp, ap.app
        else:
            st = await ncpsim.started(loop, V, acc, "C17")
            ez, ncp, app = st.ezsp, st.ncp, None
        cmd = {"form": "formNetwork", "leave": "leaveNetwork", "scan": "startScan",
               "bringup": "networkInitExtended" if V < 6 else "networkInit"}[op]
        hold = {"on": True}

        def script(name, args, seq):
            if name == cmd and hold["on"]:
                return [("none",)]
            if name == "networkState":
                return [("reply", [0])]
            return None

        ncp.script = script
        S = lambda c, k: ncpmodel.status(ncp, c, k)  # noqa: E731
        match_kind = "network_down" if op == "leave" else "network_up"
        nonmatch = ["network_up" if op == "leave" else "network_down", "undefined"]
        ref_kinds = {"Rref1": "not_joined" if op == "bringup" else "fatal", "Rref2": "invalid_call", "Rref3": "undefined"}

        def base_counts():
            c = len(ez._callbacks) if hasattr(ez, "_callbacks") else None
            l_ = sum(len(v) for v in ez._stack_status_listeners.values()) if hasattr(ez, "_stack_status_listeners") else None
            return c, l_

        dead = set()  # sequence numbers whose last request ended without its response being consumed

        def cb_seq(pending_seq):
            """A sequence number no request is outstanding (or dead) under, as NCP callbacks carry."""
            for d in range(1, 256):
                c = (pending_seq - d) % 256
                if c not in dead:
                    return c
            return (pending_seq + 128) % 256

        baseline = base_counts()
        params = t.EmberNetworkParameters.deserialize(bytes(40))[0]
        inst = 0

        async def one(events):
            nonlocal inst
            inst += 1
            case = {"version": V, "op": op, "events": events, "quiet": quiet}
            acc.case()
            hist = []
            elog.hits.clear()
            pre_k = None
            if op == "scan" and inst % 3 == 0:
                # a result callback delivered before the scan is issued must not be returned
                pre_k = [99, -99]
                ncp.callback("energyScanResultHandler", pre_k)
                await asyncio.sleep(0.01)
                hist.append(("pre-issue result", pre_k))
            n0 = len(ncp.requests)

            async def run_op():
                if op == "form":
                    return await ez.formNetwork(params)
                if op == "leave":
                    return await ez.leaveNetwork()
                if op == "bringup":
                    return await app._ensure_network_running()
                return await ez.startScan(t.EzspNetworkScanType.ENERGY_SCAN, t.Channels.ALL_CHANNELS, 3)

            outcome = {}

            async def wrapper():
                try:
                    r = await run_op()
                    outcome.update(kind="ret", t=clock(), value=r)
                except asyncio.CancelledError:
                    outcome.update(kind="cancelled", t=clock())
                    raise
                except BaseException as ex:  # noqa: BLE001
                    outcome.update(kind="raise", t=clock(), exc=family(ex))

            task = asyncio.ensure_future(wrapper())
            for _ in range(8):
                await asyncio.sleep(0)
                if any(r[1] == cmd for r in ncp.requests[n0:]):
                    break
            req = next((r for r in ncp.requests[n0:] if r[1] == cmd), None)
            if req is None:
                acc.violation("C17/issue/command-not-sent", f"{op}: {cmd} was not sent", case)
                task.cancel()
                return
            t_issue = clock()
            rseq = req[3]
            for r in ncp.requests[n0:]:
                dead.discard(r[3])
            dead.add(rseq)
            seq = cb_seq(rseq)
            tl = []  # (event, time)
            ks_sent = []
            for ev in events:
                if ev == "X":
                    await asyncio.sleep(max(CMD_T, T) + 1.0)
                    tl.append((ev, clock()))
                    continue
                await asyncio.sleep(0.05)
                now = clock()
                tl.append((ev, now))
                if ev.startswith("R"):
                    kind = "ok" if ev == "Rok" else ref_kinds[ev]
                    ncp._deliver_now(ncp.encode(cmd, [S(cmd, kind)], rseq))
                    if now <= t_issue + CMD_T and not task.done():
                        dead.discard(rseq)
                elif ev == "M":
                    ncp._deliver_now(ncp.encode("stackStatusHandler", [S("stackStatusHandler", match_kind)], seq, callback=True))
                elif ev in ("N1", "N2"):
                    ncp._deliver_now(ncp.encode("stackStatusHandler", [S("stackStatusHandler", nonmatch[int(ev[1]) - 1])], seq, callback=True))
                elif ev == "C":
                    task.cancel()
                elif ev.startswith("K"):
                    i = int(ev[1:])
                    vals = [11 + i, -40 - i]
                    ks_sent.append((now, vals))
                    ncp._deliver_now(ncp.encode("energyScanResultHandler", vals, seq, callback=True))
                elif ev in ("Dok", "Dfail"):
                    ncp._deliver_now(ncp.encode("scanCompleteHandler", [15, S("scanCompleteHandler", "ok" if ev == "Dok" else "fatal")], seq, callback=True))
                hist.append((round(now - t_issue, 3), ev))
            # let the operation run to its end
            await asyncio.sleep(max(CMD_T, T) + 1.5)
            if not task.done():
                if op == "scan" and not any(e_ in ("Dok", "Dfail") for e_ in events):
                    task.cancel()  # cannot happen: every generated scan has a completion
                else:
                    acc.violation("C17/termination/operation-never-ended", f"{op} with events {events} never ended", case, hist)
                    task.cancel()
            try:
                await task
            except BaseException:  # noqa: BLE001
                pass
            # ---- expected outcome
            tC = next((tt for e_, tt in tl if e_ == "C"), None)
            tR = next(((e_, tt) for e_, tt in tl if e_.startswith("R")), None)
            if op == "scan":
                tD = next(((e_, tt) for e_, tt in tl if e_ in ("Dok", "Dfail")), None)
                if tR is None or tR[1] > t_issue + CMD_T:
                    exp = ("raise", t_issue + CMD_T)
                elif tR[0] != "Rok":
                    exp = ("raise", tR[1])
                elif tD[0] == "Dfail":
                    exp = ("raise", max(tR[1], tD[1]))
                else:
                    exp = ("ret", max(tR[1], tD[1]))
            else:
                if tR is None or tR[1] > t_issue + CMD_T + 1e-9:
                    exp = ("raise", t_issue + CMD_T)
                    acc.hit("command_timeout")
                elif tR[0] != "Rok":
                    exp = ("raise", tR[1])
                else:
                    ms = [tt for e_, tt in tl if e_ == "M" and tt <= tR[1] + T + 1e-9]
                    if any(tt <= tR[1] for tt in ms):
                        exp = ("ret", tR[1])
                        acc.hit("event_before_response")
                    elif ms:
                        exp = ("ret", min(ms))
                    else:
                        exp = ("raise", tR[1] + T)
                        if any(e_ == "M" for e_, tt in tl):
                            acc.hit("event_after_timeout")
            if tC is not None and tC < exp[1] - 1e-9:
                exp = ("cancelled", tC)
                acc.hit("cancel_before_response" if (tR is None or tC < tR[1]) else "cancel_after_response")
            got = (outcome.get("kind"), outcome.get("t"))
            hist.append(("expected", exp[0], round(exp[1] - t_issue, 3), "got", got[0], None if got[1] is None else round(got[1] - t_issue, 3), outcome.get("exc")))
            if got[0] != exp[0]:
                if exp[0] == "ret" and got[0] == "raise":
                    key = "C17/outcome/completing-event-missed"
                elif exp[0] == "raise" and got[0] == "ret":
                    key = "C17/outcome/completed-without-command-success-and-event"
                else:
                    key = f"C17/outcome/expected-{exp[0]}-got-{got[0]}"
                acc.violation(key, f"{op} {events}: expected {exp[0]} at +{exp[1] - t_issue:.3f}s, observed {got[0]} "
                              f"({outcome.get('exc')}) at {None if got[1] is None else round(got[1] - t_issue, 3)}", case, hist)
            elif got[1] is not None and abs(got[1] - exp[1]) > 1e-6:
                acc.violation("C17/outcome/wrong-instant", f"{op} {events}: {exp[0]} expected at +{exp[1] - t_issue:.4f}s, observed at "
                              f"+{got[1] - t_issue:.4f}s", case, hist)
            else:
                if exp[0] == "ret":
                    acc.hit("returned")
                if exp[0] == "raise":
                    if tR and tR[0] != "Rok":
                        acc.hit("refused")
                    elif op != "scan" and tR and tR[0] == "Rok":
                        acc.hit("timeout_waiting_event")
            if op == "scan" and got[0] == "ret" and exp[0] == "ret":
                tDt = next(tt for e_, tt in tl if e_ == "Dok")
                want = [vals for (tt, vals) in ks_sent if tt < tDt]
                res = [list(map(int, r)) for r in outcome["value"]]
                late = [vals for (tt, vals) in ks_sent if tt > tDt]
                if res[: len(want)] != want or any(r not in late for r in res[len(want):]):
                    key = "C17/scan/pre-issue-result-returned" if pre_k and pre_k in res else "C17/scan/results-differ"
                    acc.violation(key, f"scan returned {res}, results delivered between issue and completion: {want}", case, hist)
                else:
                    acc.hit("scan_results_in_order")
                    if pre_k:
                        acc.hit("scan_pre_issue_result_excluded")
                if tDt < tR[1]:
                    acc.hit("scan_completion_before_response")
            # ---- leak probe
            await asyncio.sleep(0.05)
            now_counts = base_counts()
            if now_counts != baseline:
                acc.violation("C17/leak/listener-or-callback-remains",
                              f"after {op} {events} ended ({got[0]}): callbacks/listeners {now_counts}, baseline {baseline}", case, hist)
            elog.hits.clear()
            for kind in (() if quiet else (match_kind, nonmatch[0])):
                ncp._deliver_now(ncp.encode("stackStatusHandler", [S("stackStatusHandler", kind)], seq, callback=True))
            if op == "scan":
                ncp._deliver_now(ncp.encode("energyScanResultHandler", [1, -1], seq, callback=True))
                ncp._deliver_now(ncp.encode("scanCompleteHandler", [1, S("scanCompleteHandler", "ok")], seq, callback=True))
            await asyncio.sleep(0.05)
            if elog.hits:
                acc.violation("C17/leak/event-after-end-hits-stale-listener",
                              f"events injected after {op} {events} ended raised inside a handler: {elog.hits[:2]}", case, hist)
            acc.hit("leak_probe_done")
            if inst > 1:
                acc.hit("repeated_operation")
            if quiet and inst > 1 and exp[0] == "ret" and got[0] == "ret":
                acc.hit("completed_on_a_repeated_status_value")
            if events != ["Rok", "M"]:
                acc.nontrivial((V, op, tuple(events), quiet))
            if len(acc.samples) < 2 and len(events) >= 4:
                acc.sample({"case": case, "history": [repr(h) for h in hist]})
            # a late response for a timed-out command of this instance must not disturb the next
            hold["on"] = True

        order = list(range(len(cases)))
        rnd.shuffle(order)
        for i in order:
            await one(cases[i])

    try:
        vloop.run(main)
    except ncpsim.BringUpFailed:
        pass
    finally:
        lg.removeHandler(elog)
    return acc


def run_status_overlap(desc) -> Acc:
    """Several operations waiting for a stack status at the same time on one EZSP (two formNetwork calls, a
    formNetwork next to the application's bring-up wait, two leaveNetwork calls, mixed): every one of them
    completes at the first matching status event delivered after its command succeeded, an operation whose
    status never comes ends with its timeout, a cancelled one does not disturb the others, and no listener
    stays registered."""
    import bellows.ezsp as e
    import bellows.types as t

    logmode.apply(desc)
    acc = Acc()
    install_status_contract(acc)
    V = desc["version"]
    OPS_T = float(e.NETWORK_OPS_TIMEOUT)
    acc.hit("op_status_overlap")
    kinds = ["form", "leave", "up", "down"]
    actor_sets = [list(c) for n in (2, 3) for c in itertools.combinations_with_replacement(kinds, n)]
    ev_lists = [list(p) for n in (1, 2, 3) for p in itertools.product("UD", repeat=n)]
    rnd = random.Random(desc["seed"] * 7 + V)
    if desc["tier"] == "quick":
        combos = [(a, ev, None) for a in actor_sets for ev in ev_lists if (len(a) + len(ev) + actor_sets.index(a)) % 2 == desc["seed"] % 2]
    else:
        combos = [(a, ev, None) for a in actor_sets for ev in ev_lists]
    combos += [(a, ev, rnd.randrange(len(a))) for a in actor_sets for ev in ev_lists[::3]]

    async def main(loop):
        clock = loop.time
        st = await ncpsim.started(loop, V, acc, "C17")
        ez, ncp = st.ezsp, st.ncp
        S = lambda c, k: ncpmodel.status(ncp, c, k)  # noqa: E731

        def script(name, args, seq):
            if name in ("formNetwork", "leaveNetwork"):
                return [("reply", [S(name, "ok")])]
            return None

        ncp.script = script
        params = t.EmberNetworkParameters.deserialize(bytes(40))[0]

        def listeners():
            return sum(len(v) for v in ez._stack_status_listeners.values()) if hasattr(ez, "_stack_status_listeners") else None

        baseline = listeners()
        for actors, events, cancel_i in combos:
            acc.case()
            case = {"version": V, "op": "status_overlap", "actors": actors, "events": events, "cancelled": cancel_i}
            out = [dict() for _ in actors]
            t0 = clock()

            async def actor(i, kind):
                try:
                    if kind == "form":
                        await ez.formNetwork(params)
                    elif kind == "leave":
                        await ez.leaveNetwork()
                    else:
                        want = t.sl_Status.NETWORK_UP if kind == "up" else t.sl_Status.NETWORK_DOWN
                        with ez.wait_for_stack_status(want) as fut:
                            async with asyncio.timeout(OPS_T):
                                await fut
                    out[i].update(kind="ret", t=clock())
                except asyncio.CancelledError:
                    out[i].update(kind="cancelled", t=clock())
                    raise
                except BaseException as ex:  # noqa: BLE001
                    out[i].update(kind="raise", t=clock(), exc=family(ex))

            tasks = [asyncio.ensure_future(actor(i, k)) for i, k in enumerate(actors)]
            await asyncio.sleep(1.0)  # every command has been answered by now
            if cancel_i is not None:
                tasks[cancel_i].cancel()
                await asyncio.sleep(0.01)
                acc.hit("status_overlap_one_cancelled")
            tl = []
            seq = (ncp.requests[-1][3] - 1) % 256 if ncp.requests else 200
            for ev in events:
                await asyncio.sleep(0.05)
                tl.append((ev, clock()))
                ncp._deliver_now(ncp.encode("stackStatusHandler", [S("stackStatusHandler", "network_up" if ev == "U" else "network_down")], seq, callback=True))
            await asyncio.sleep(OPS_T + 2.0)
            for tk in tasks:
                if not tk.done():
                    tk.cancel()
            await asyncio.gather(*tasks, return_exceptions=True)
            hist = [("actors", actors), ("events", [(e_, round(tt - t0, 3)) for e_, tt in tl]),
                    ("outcomes", [(o.get("kind"), None if o.get("t") is None else round(o["t"] - t0, 3), o.get("exc")) for o in out])]
            for i, kind in enumerate(actors):
                want_ev = "U" if kind in ("form", "up") else "D"
                m = next((tt for e_, tt in tl if e_ == want_ev), None)
                if cancel_i == i:
                    exp = "cancelled"
                elif m is not None:
                    exp = "ret"
                else:
                    exp = "raise"
                got = out[i].get("kind")
                if got != exp:
                    key = "C17/outcome/completing-event-missed" if exp == "ret" else f"C17/outcome/expected-{exp}-got-{got}"
                    acc.violation(key, f"{len(actors)} operations {actors} waiting at the same time, status events {events}: operation {i} ({kind}) "
                                  f"expected {exp}, observed {got} ({out[i].get('exc')})", case, hist)
                elif exp == "ret" and abs(out[i]["t"] - m) > 1e-6:
                    acc.violation("C17/outcome/wrong-instant", f"operation {i} ({kind}) completed {out[i]['t'] - m:+.3f}s away from its status event", case, hist)
                elif exp == "ret":
                    acc.hit("status_overlap_completed")
            if sum(1 for k in actors if k in ("form", "up")) >= 2 and "U" in events or sum(1 for k in actors if k in ("leave", "down")) >= 2 and "D" in events:
                acc.hit("several_listeners_for_one_status_event")
            await asyncio.sleep(0.05)
            if listeners() != baseline:
                acc.violation("C17/leak/listener-or-callback-remains", f"after {actors} / {events}: {listeners()} status listeners, baseline {baseline}", case, hist)
            acc.nontrivial((V, "status_overlap", tuple(actors), tuple(events), cancel_i))
            if len(acc.samples) < 1:
                acc.sample({"case": case, "history": [repr(h) for h in hist]})

    try:
        vloop.run(main)
    except ncpsim.BringUpFailed:
        pass
    return acc


def overlap_orders(actors):
    """All interleavings of start/end events of the actors (start before end for each)."""
    evs = [(a, k) for a in actors for k in ("start", "end")]
    for p in itertools.permutations(evs):
        pos = {e: i for i, e in enumerate(p)}
        if all(pos[(a, "start")] < pos[(a, "end")] for a in actors):
            yield list(p)


def run_overlap(desc) -> Acc:
    """Operations that register a callback for their duration, overlapping in every order of
    start and end (scan, poll, ZLL scan, and a callback somebody else adds and removes): each
    scan / poll still returns exactly the results delivered between its issue and its completion,
    the foreign callback sees every frame once, and nothing stays registered afterwards."""
    import bellows.types as t

    logging.disable(logging.NOTSET)
    logging.getLogger().setLevel(logging.CRITICAL)
    acc = Acc()
    install_status_contract(acc)
    V = desc["version"]
    elog = ExcLog()
    lg = logging.getLogger("bellows.ezsp")
    lg.addHandler(elog)
    # a third of the shards run with DEBUG logging on (records are formatted by the sink; the handler
    # above still keeps only errors / handler exceptions)
    lg.setLevel(logging.DEBUG if desc.get("debuglog") else logging.ERROR)
    if desc.get("debuglog"):
        from ..logmode import FormatSink

        sink_ = FormatSink()
        lg.addHandler(sink_)
        for nm_ in ("bellows.zigbee", "bellows.uart", "bellows.ash"):
            l2 = logging.getLogger(nm_)
            l2.setLevel(logging.DEBUG)
            l2.propagate = False
            l2.addHandler(sink_)
        acc.hit("debuglog_shards")
    lg.propagate = False
    acc.hit("op_overlap")

    async def main(loop):
        st = await ncpsim.started(loop, V, acc, "C17")
        ez, ncp = st.ezsp, st.ncp
        S = lambda c, k: ncpmodel.status(ncp, c, k)  # noqa: E731
        CMDS = {"S": "startScan", "P": "pollForData", "Z": "zllStartScan"}
        DONE = {"S": ("scanCompleteHandler", lambda: [15, S("scanCompleteHandler", "ok")]),
                "P": ("pollCompleteHandler", lambda: [S("pollCompleteHandler", "ok")]),
                "Z": ("zllScanCompleteHandler", lambda: [S("zllScanCompleteHandler", "ok")])}

        def script(name, args, seq):
            if name in CMDS.values():
                return [("reply", [S(name, "ok")])]
            return None

        ncp.script = script
        baseline = len(ez._callbacks) if hasattr(ez, "_callbacks") else None
        uniq = [0]

        async def one(actors, order):
            case = {"version": V, "op": "overlap", "actors": actors, "order": [list(e) for e in order]}
            acc.case()
            hist = []
            elog.hits.clear()
            active, tasks, outcome, expect = set(), {}, {}, {a: [] for a in actors}
            seen_x = []
            xid = [None]

            def xcb(name, args):
                seen_x.append((name, [int(v) for v in args] if name in ("energyScanResultHandler", "pollHandler") else None))

            async def run(a):
                try:
                    if a == "S":
                        r = await ez.startScan(t.EzspNetworkScanType.ENERGY_SCAN, t.Channels.ALL_CHANNELS, 3)
                    elif a == "P":
                        r = await ez.pollForData(10, t.EmberEventUnits.EVENT_MS_TIME, 3)
                    else:
                        r = await ez.zllStartScan(t.Channels.ALL_CHANNELS, 3, t.EmberNodeType.COORDINATOR)
                    outcome[a] = ("ret", r)
                except asyncio.CancelledError:
                    outcome[a] = ("cancelled",)
                    raise
                except BaseException as ex:  # noqa: BLE001
                    outcome[a] = ("raise", repr(ex)[:120])

            def items():
                # one energy result and one poll item with fresh values, to whoever is listening
                uniq[0] += 1
                ev = [uniq[0] % 200, -(uniq[0] % 100) - 1]
                pv = [uniq[0] % 0xFFF0] + [0] * (len(ncp.COMMANDS["pollHandler"][2]) - 1)
                cs = (ncp.requests[-1][3] - 1) % 256 if ncp.requests else 7
                ncp._deliver_now(ncp.encode("energyScanResultHandler", ev, cs, callback=True))
                ncp._deliver_now(ncp.encode("pollHandler", pv, cs, callback=True))
                if "S" in active:
                    expect["S"].append(ev)
                if "P" in active:
                    expect["P"].append(pv)
                if "X" in active:
                    expect["X"] += [("energyScanResultHandler", ev), ("pollHandler", pv)]
                hist.append(("items", ev, pv, sorted(active)))

            for (a, k) in order:
                if k == "start":
                    if a == "X":
                        xid[0] = ez.add_callback(xcb)
                    else:
                        tasks[a] = asyncio.ensure_future(run(a))
                        await asyncio.sleep(0.01)  # command sent and answered
                    active.add(a)
                else:
                    if a == "X":
                        try:
                            ez.remove_callback(xid[0])
                        except BaseException as ex:  # noqa: BLE001
                            outcome["X"] = ("raise", repr(ex)[:120])
                    else:
                        name, vals = DONE[a]
                        cs = (ncp.requests[-1][3] - 1) % 256
                        ncp._deliver_now(ncp.encode(name, vals(), cs, callback=True))
                        if "X" in active:
                            expect["X"].append((name, None))
                        await asyncio.sleep(0.01)
                    active.discard(a)
                hist.append((a, k))
                items()
                await asyncio.sleep(0.005)
            await asyncio.sleep(0.05)
            for a, tk in tasks.items():
                if not tk.done():
                    outcome.setdefault(a, ("pending",))
                    tk.cancel()
                    try:
                        await tk
                    except BaseException:  # noqa: BLE001
                        pass
            bad = []
            for a in actors:
                if a == "X":
                    if outcome.get("X"):
                        bad.append(("C17/overlap/remove-callback-raised", f"removing the foreign callback raised {outcome['X'][1]}"))
                    got = [x for x in seen_x if x[0] in ("energyScanResultHandler", "pollHandler", "scanCompleteHandler", "pollCompleteHandler", "zllScanCompleteHandler")]
                    if got != expect["X"]:
                        bad.append(("C17/overlap/foreign-callback-missed-or-repeated-frames",
                                    f"a callback registered during the operations saw {len(got)} frames, {len(expect['X'])} were delivered while it was registered"))
                    continue
                o = outcome.get(a, ("pending",))
                if o[0] != "ret":
                    bad.append(("C17/overlap/operation-did-not-complete",
                                f"{CMDS[a]} overlapping with {[x for x in actors if x != a]} ended as {o} although its completion callback was delivered"))
                    continue
                res = [[int(v) for v in r] for r in o[1]]
                if res != expect[a]:
                    bad.append(("C17/overlap/results-differ", f"{CMDS[a]} returned {res}, delivered between its issue and completion: {expect[a]}"))
            now = len(ez._callbacks) if hasattr(ez, "_callbacks") else None
            if now != baseline:
                bad.append(("C17/leak/listener-or-callback-remains", f"after overlapping operations {actors} in order {order}: {now} callbacks, baseline {baseline}"))
            if elog.hits:
                bad.append(("C17/overlap/handler-raised", f"{elog.hits[:2]}"))
            for key, msg in bad[:3]:
                acc.violation(key, msg, case, [repr(h) for h in hist])
            if not bad:
                acc.hit("overlapping_registrations_checked")
                lifo = True
                stack = []
                for (a, k) in order:
                    if k == "start":
                        stack.append(a)
                    else:
                        if stack[-1] != a:
                            lifo = False
                        stack.remove(a)
                if not lifo:
                    acc.hit("non_lifo_lifetimes")
            acc.nontrivial((V, "overlap", tuple(actors), tuple(order)))
            if len(acc.samples) < 1:
                acc.sample({"case": case, "history": [repr(h) for h in hist][:30]})

        for actors in (["S", "P", "X"], ["S", "P", "Z"], ["P", "S", "X"], ["S", "Z", "X"]):
            expect_x = None
            for order in overlap_orders(actors):
                # expectation lists are per run
                await one(list(actors), order)

    def patched_expect():
        pass

    try:
        vloop.run(main)
    except ncpsim.BringUpFailed:
        pass
    finally:
        lg.removeHandler(elog)
    return acc


def replay(case) -> Acc:
    if case.get("op") == "overlap":
        return run_overlap({"version": case["version"], "op": "overlap", "tier": "quick", "seed": 0})
    return run_shard({"version": case["version"], "op": case["op"], "tier": "quick", "seed": 0, "quiet": case.get("quiet", False)})
