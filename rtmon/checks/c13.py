"""C13 - incoming NCP callbacks are translated faithfully for every protocol version.

ControllerApplication (zigpy.util.Requests shim) + real EZSP in frame mode, started through
connect() / start_network() against the NCP model.  packet_received / handle_join /
handle_leave are replaced by recorders on the instance.  Callback frames are encoded at byte
level by this module (pre-v14 and v14 field orders, each version's header from
rtmon.ezspref) and injected through the real EZSP.frame_received.
"""
from __future__ import annotations

import asyncio
import logging
import random

from .. import ezspref as X
from .. import vloop, ncpsim, appharness
from ..runner import Acc
from .. import logmode
from ..contracts import install_status_contract

PROPERTY = "C13"
LEVEL = "exploration"
RULE = (
    "Cases are (protocol version, callback kind, field values).  incomingMessageHandler: every one of "
    "the 256 message-type values at least once, random source / endpoints / profile / cluster / group / "
    "APS sequence / options, LQI 0..255, RSSI incl. -128 and 127, payload lengths 0..200 and 254; "
    "trustCenterJoinHandler: every device-update status x every join decision (defined and undefined) "
    "x random addresses.  Non-trivial = every case (each is a distinct callback content); distinct = "
    "distinct frame bytes."
)
ASSUMPTIONS = [
    "byte layouts: incomingMessageHandler pre-v14 = type, apsFrame, lqi, rssi, sender, bindingIndex, "
    "addressIndex, LV message; v14 = type, apsFrame, nwk, eui64, bindingIndex, addressIndex, lqi, rssi, "
    "timestamp(u32), LV message; trustCenterJoinHandler = nwk, eui64, status, decision, parent (UG100)",
    "message types 0 / 2 / 4 are unicast / multicast / broadcast; device-update 2 = left; decision 2 = deny",
    "zigpy.util.Requests shim and the NCP model of rtmon/appharness.py, rtmon/ncpmodel.py",
]
REACH = {t: ["versions_11", "all_256_message_types", "rssi_min", "rssi_max", "empty_payload", "max_payload",
             "unicast", "multicast", "broadcast", "ignored_type", "join", "leave", "deny", "leave_of_known_device_same_nwk", "leave_of_known_device_other_nwk", "v14_layout",
             "pre_v14_layout", "versions_mixed_in_one_process", "own_address_changed_mid_run",
             "same_application_reconnected_to_another_version", "join_callbacks_back_to_back",
             "unicast_during_network_info_reload", "fullstack_c13_judged", "callback_under_the_sequence_of_a_timed_out_command"] for t in ("quick", "thorough")}
SHARD_TIMEOUT = {"quick": 900, "thorough": 3600}
ID_INCOMING = 0x45
ID_TCJOIN = 0x24


def enc_incoming(V, seq, f):
    aps = X.aps_frame(f["profile"], f["cluster"], f["src_ep"], f["dst_ep"], f["options"], f["group"], f["aps_seq"])
    msg = bytes([len(f["payload"])]) + f["payload"]
    if V >= 14:
        body = (X.u8(f["type"]) + aps + X.u16(f["sender"]) + f["eui64"] + X.u8(f["binding"]) + X.u8(f["address"])
                + X.u8(f["lqi"]) + X.i8(f["rssi"]) + X.u32(f["timestamp"]) + msg)
    else:
        body = (X.u8(f["type"]) + aps + X.u8(f["lqi"]) + X.i8(f["rssi"]) + X.u16(f["sender"]) + X.u8(f["binding"])
                + X.u8(f["address"]) + msg)
    return X.response_header(V, seq, ID_INCOMING, callback=True) + body


def enc_tcjoin(V, seq, f):
    body = X.u16(f["nwk"]) + f["ieee"] + X.u8(f["status"]) + X.u8(f["decision"]) + X.u16(f["parent"])
    return X.response_header(V, seq, ID_TCJOIN, callback=True) + body


def ncp_node_id(ncp):
    net = ncp.state.get("net") if hasattr(ncp, "state") else None
    try:
        return int(net.network["node_id"])
    except Exception:  # noqa: BLE001
        return 0x0000


def shards(tier, seed):
    out = [{"versions": [v], "n": 1500 if tier == "quick" else 40000, "seed": seed} for v in range(4, 15)]
    # several protocol versions alive in one process, callbacks alternating between them (state
    # shared between handler classes - caches, tables filled in lazily - shows only here)
    mixes = [[13, 14], [14, 4], [8, 14, 7], [14, 13, 12, 4]] if tier == "quick" else \
        [[a, 14] for a in range(4, 14)] + [[14, a] for a in range(4, 14)] + [[4, 8, 14], [14, 9, 5], list(range(14, 3, -1)), list(range(4, 15))]
    for m in mixes:
        out.append({"versions": m, "n": (800 if tier == "quick" else 8000), "seed": seed + 1})
    # one application object reconnected to NCPs of other protocol versions (across the v14 boundary)
    hops = [[13, 14, 13], [14, 4, 14], [8, 14]] if tier == "quick" else \
        [[13, 14, 13], [14, 4, 14], [8, 14], [14, 13], [4, 14, 8, 14], [12, 14, 12], [14, 14], [7, 13]]
    for h in hops:
        out.append({"versions": [h[0]], "reconnect": h[1:], "n": (600 if tier == "quick" else 6000), "seed": seed + 2})
    from .. import fullstack

    return out + fullstack.shard_descs(tier, seed)


KNOWN = {bytes([0x10 + k, 0x22, 0x33, 0x44, 0x55, 0x66, 0x77, 0x88]): n for k, n in enumerate((0x1234, 0x0001, 0xFFF0, 0xBEEF))}


def run_shard(desc) -> Acc:
    logmode.apply(desc)
    acc = Acc()
    install_status_contract(acc)
    if desc.get("part") == "fullstack":
        # incoming-message callbacks through the whole stack: carried by the real AshProtocol over the faulty line
        # (retransmitted, duplicated on the wire), interleaved with command traffic (rtmon/fullstack.py)
        from .. import fullstack

        return fullstack.run_shard_part(acc, PROPERTY, desc)
    versions = desc.get("versions") or [desc["version"]]
    rnd = random.Random(desc["seed"] * 977 + versions[0] + 31 * len(versions))
    if len(versions) == 1:
        acc.reach["version:%d" % versions[0]] += 1
    else:
        acc.hit("versions_mixed_in_one_process")

    async def main(loop):
        ctxs = []
        for V_ in versions:
            ap_ = await appharness.started_app(loop, V_, acc, "C13")
            rec_ = []
            ap_.app.packet_received = lambda pkt, rec_=rec_: rec_.append(("packet", pkt))
            ap_.app.handle_join = lambda nwk, ieee, parent, *a, rec_=rec_, **k: rec_.append(("join", int(nwk), bytes(ieee.serialize()), int(parent)))
            ap_.app.handle_leave = lambda nwk, ieee, *a, rec_=rec_, **k: rec_.append(("leave", int(nwk), bytes(ieee.serialize())))
            acc.hit("v14_layout" if V_ >= 14 else "pre_v14_layout")
            # devices the application already knows (under a network address that the callbacks below
            # sometimes repeat and sometimes contradict): what the table says must not matter
            import zigpy.types as ztk
            for kb_, kn_ in KNOWN.items():
                ap_.app.add_device(ztk.EUI64.deserialize(kb_)[0], kn_)
            ctxs.append([V_, ap_.app, ap_.ncp, int(ap_.app.state.node_info.nwk), rec_, ap_])
        types_seen = set()
        seq = 200
        dead_seq = {}

        n = desc["n"]
        n_in = 0
        for i in range(n):
            acc.case()
            ctx = ctxs[(i // 4 if len(ctxs) > 1 and (i // 64) % 2 else i) % len(ctxs)]
            if i % 61 == 60:
                # the node's own network address changes (what load_network_info() does after a
                # restore / re-form): later unicasts are addressed to the new one
                import zigpy.state
                import zigpy.types as zt_

                new_nwk = rnd.choice([0x0000, 0x1A2B, rnd.randrange(1, 0xFFF7)])
                old = ctx[1].state.node_info
                if (i // 61) % 2:
                    ctx[1].state.node_info = zigpy.state.NodeInfo(nwk=zt_.NWK(new_nwk), ieee=old.ieee, logical_type=old.logical_type)
                else:
                    old.nwk = zt_.NWK(new_nwk)
                if new_nwk != ctx[3]:
                    acc.hit("own_address_changed_mid_run")
                ctx[3] = new_nwk
            if i % 97 == 50:
                # a little history: a command the NCP never answers ends by its timeout; callbacks may later arrive under
                # that sequence number (nothing awaits it any more) and must be translated like any other
                ncp_ = ctx[2]
                saved_script = ncp_.script
                ncp_.script = lambda name, args, seq_: [("none",)] if name == "nop" else (saved_script(name, args, seq_) if saved_script else None)
                try:
                    await appharness.ezsp_of(ctx[1]).nop()
                except BaseException:  # noqa: BLE001
                    dead_seq[id(ncp_)] = ncp_.requests[-1][3]
                ncp_.script = saved_script
            hops = desc.get("reconnect") or []
            if hops and i and i % (n // (len(hops) + 1)) == 0 and (i // (n // (len(hops) + 1))) <= len(hops):
                nv = hops[i // (n // (len(hops) + 1)) - 1]
                try:
                    await ctx[5].reconnect(nv)
                except BaseException as ex:  # noqa: BLE001
                    acc.violation("C13/setup/fault-free-application-start-failed", f"reconnecting the application to an NCP v{nv} ended with {ex!r}",
                                  {"version": nv, "mix": versions, "reconnect": hops})
                    return
                ctx[0], ctx[2], ctx[3] = nv, ctx[5].ncp, int(ctx[1].state.node_info.nwk)
                acc.hit("same_application_reconnected_to_another_version" if nv != versions[0] or True else "x")
                acc.hit("v14_layout" if nv >= 14 else "pre_v14_layout")
            V, app, ncp, own_nwk, rec = ctx[:5]
            if i % 173 == 100:
                # the network information is re-read while traffic keeps arriving (zigpy's periodic backup
                # does this on a running network): unicasts delivered meanwhile are still addressed to us
                ncp.think_time = 0.002
                reload_ = asyncio.ensure_future(app.load_network_info(load_devices=False))
                bad_dst = None
                n_during = 0
                for k_ in range(400):
                    await asyncio.sleep(0.0005)
                    if reload_.done():
                        break
                    f_ = dict(type=0, profile=0x0104, cluster=6, src_ep=1, dst_ep=1, options=0, group=0, aps_seq=k_ & 0xFF, lqi=200, rssi=-40,
                              sender=0x1234, binding=0, address=0, payload=b"during-reload", eui64=bytes(8), timestamp=0)
                    rec.clear()
                    # (callbacks carry the sequence number of the last *completed* command)
                    cs_ = (ncp.requests[-1][3] - 1) % 256 if ncp.requests else seq
                    appharness.ezsp_of(app).frame_received(enc_incoming(V, cs_, f_))
                    await asyncio.sleep(0)
                    pk_ = [r for r in rec if r[0] == "packet"]
                    n_during += 1
                    if len(pk_) != 1:
                        bad_dst = ("packets", len(pk_))
                        break
                    d_ = int(pk_[0][1].dst.address)
                    try:
                        new_own = int(app.state.node_info.nwk)
                    except Exception:  # noqa: BLE001
                        new_own = None
                    if d_ not in (own_nwk, ncp_node_id(ncp)):
                        bad_dst = ("dst", d_, own_nwk, new_own)
                        break
                ncp.think_time = 0.0
                try:
                    await asyncio.wait_for(reload_, 60)
                except BaseException as ex_:  # noqa: BLE001
                    acc.notes.append(f"load_network_info during traffic ended with {ex_!r}")
                if bad_dst is not None:
                    acc.violation("C13/incoming/destination-wrong",
                                  f"a unicast delivered while the network information was being re-read: {bad_dst} (own address {own_nwk:#06x})",
                                  {"version": V, "mix": versions, "reconnect": desc.get("reconnect"), "kind": "incoming-during-reload"})
                elif n_during:
                    acc.hit("unicast_during_network_info_reload")
                ctx[3] = own_nwk = int(app.state.node_info.nwk)

            def inject(frame):
                rec.clear()
                try:
                    ncp.deliver(frame)
                except BaseException as ex:  # noqa: BLE001
                    return ex
                return None

            if i % 4 != 3:
                mt = n_in % 256 if n_in < 256 * 2 else rnd.choice([0, 0, 2, 2, 4, 4, 1, 3, 5, 6, rnd.randrange(256)])
                n_in += 1
                plen = rnd.choice([0, 0, 1, 2, 5, 20, 80, 127, 200, 254])
                b16 = lambda: rnd.choice([0x0000, 0xFFFF, 0xFFFE, 0xFFFC, own_nwk, rnd.randrange(65536), rnd.randrange(65536), rnd.randrange(65536)])  # noqa: E731
                f = dict(type=mt, profile=b16(), cluster=b16(), src_ep=rnd.choice([0, 255, 1, rnd.randrange(256)]),
                         dst_ep=rnd.choice([0, 255, 1, rnd.randrange(256)]), options=rnd.randrange(65536), group=b16(),
                         aps_seq=rnd.randrange(256), lqi=rnd.choice([0, 255, rnd.randrange(256)]),
                         rssi=rnd.choice([-128, 127, 0, -1, rnd.randrange(-128, 128)]), sender=b16(),
                         binding=rnd.randrange(256), address=rnd.randrange(256), payload=rnd.randbytes(plen),
                         eui64=rnd.randbytes(8), timestamp=rnd.getrandbits(32))
                seq = (ncp.requests[-1][3] - 1) % 256 if ncp.requests else 200  # a completed command's sequence
                if dead_seq.get(id(ncp)) is not None and i % 3 == 0:
                    seq = dead_seq[id(ncp)]
                    acc.hit("callback_under_the_sequence_of_a_timed_out_command")
                frame = enc_incoming(V, seq, f)
                case = {"version": V, "mix": versions, "reconnect": desc.get("reconnect"), "kind": "incoming", "fields": {k: (v.hex() if isinstance(v, bytes) else v) for k, v in f.items()},
                        "frame": frame.hex()}
                ex = inject(frame)
                types_seen.add(mt)
                if ex is not None:
                    acc.violation("C13/incoming/raised", f"frame_received raised {ex!r}", case)
                    continue
                pk = [r for r in rec if r[0] == "packet"]
                if (mt in (0, 2, 4)) != (len(pk) == 1):
                    await asyncio.sleep(0.5)  # virtual time: a packet may be handed over from a task
                    pk = [r for r in rec if r[0] == "packet"]
                if mt not in (0, 2, 4):
                    acc.hit("ignored_type")
                    if pk:
                        acc.violation("C13/incoming/packet-for-ignored-message-type", f"message type {mt} produced {len(pk)} packet(s)", case)
                    continue
                if len(pk) != 1:
                    acc.violation("C13/incoming/not-exactly-one-packet", f"message type {mt} produced {len(pk)} packets", case)
                    continue
                p = pk[0][1]
                acc.hit({0: "unicast", 2: "multicast", 4: "broadcast"}[mt])
                want = dict(src=f["sender"], src_ep=f["src_ep"], dst_ep=f["dst_ep"], profile=f["profile"], cluster=f["cluster"],
                            tsn=f["aps_seq"], data=f["payload"], lqi=f["lqi"], rssi=f["rssi"])
                got = {}
                try:
                    got = dict(src=int(p.src.address), src_ep=int(p.src_ep), dst_ep=int(p.dst_ep), profile=int(p.profile_id),
                               cluster=int(p.cluster_id), tsn=int(p.tsn), data=bytes(p.data.serialize()), lqi=int(p.lqi),
                               rssi=int(p.rssi))
                    src_mode = p.src.addr_mode.name
                    dst_mode = p.dst.addr_mode.name
                    dst_addr = int(p.dst.address)
                except Exception as ex2:  # noqa: BLE001
                    acc.violation("C13/incoming/packet-malformed", f"packet fields unreadable: {ex2!r} ({p!r})", case)
                    continue
                diff = {k: (got[k], want[k]) for k in want if got[k] != want[k]}
                if diff:
                    k0 = sorted(diff)[0]
                    key = "C13/incoming/lqi-rssi-wrong" if set(diff) <= {"lqi", "rssi"} else f"C13/incoming/field-{k0}-wrong"
                    acc.violation(key, f"packet differs from the callback (got, encoded): {({k: (v[0].hex()[:20], v[1].hex()[:20]) if isinstance(v[0], bytes) else v for k, v in diff.items()})}", case)
                    continue
                if src_mode != "NWK":
                    acc.violation("C13/incoming/source-mode", f"source address mode {src_mode}", case)
                wd = {0: ("NWK", own_nwk), 2: ("Group", f["group"]), 4: ("Broadcast", None)}[mt]
                if dst_mode != wd[0] or (wd[1] is not None and dst_addr != wd[1]):
                    acc.violation("C13/incoming/destination-wrong", f"type {mt}: destination {dst_mode}:{dst_addr:#06x}, expected {wd}", case)
                if f["rssi"] == -128:
                    acc.hit("rssi_min")
                if f["rssi"] == 127:
                    acc.hit("rssi_max")
                if plen == 0:
                    acc.hit("empty_payload")
                if plen >= 200:
                    acc.hit("max_payload")
                acc.nontrivial(frame)
                if len(acc.samples) < 2:
                    acc.sample({"version": V, "frame": frame.hex()[:160], "packet": repr(p)[:300]})
            else:
                # one trust-centre join callback - or a burst of two or three handed over back to back
                # (no yield in between) - then the loop is given time: an implementation may announce
                # from a task, but every allowed join / leave must be announced, and nothing else
                burst = rnd.choice([1, 1, 1, 2, 3])
                want, frames, fields_all = [], [], []
                lumi = bytes([1, 2, 3, 4, 5, 0x8C, 0xCF, 0x04])
                for b_ in range(burst):
                    st_ = rnd.choice([0, 1, 2, 3, 4, 5, 7, 6, rnd.randrange(256)])
                    dec = rnd.choice([0, 1, 2, 3, rnd.randrange(256)])
                    kb_ = rnd.choice(list(KNOWN))
                    f = dict(nwk=rnd.choice([0x0000, 0xFFFE, 0xFFFF, rnd.randrange(65536), rnd.randrange(65536), KNOWN[kb_]]),
                             ieee=rnd.choice([rnd.randbytes(8), lumi, bytes([b_ + 1]) + lumi[1:5] + bytes([0x44, 0xEF, 0x54]), bytes(8), b"\xff" * 8, kb_, kb_]),
                             status=st_, decision=dec, parent=rnd.choice([0x0000, 0xFFFF, rnd.randrange(65536)]))
                    fields_all.append({k: (v.hex() if isinstance(v, bytes) else v) for k, v in f.items()})
                    seq = (ncp.requests[-1][3] - 1) % 256 if ncp.requests else 200
                    if dead_seq.get(id(ncp)) is not None and i % 3 == 1:
                        seq = dead_seq[id(ncp)]
                    frames.append(enc_tcjoin(V, seq, f))
                    if f["ieee"] in KNOWN:
                        acc.hit("known_device_same_nwk" if KNOWN[f["ieee"]] == f["nwk"] else "known_device_other_nwk")
                        if st_ == 2:
                            acc.hit("leave_of_known_device_same_nwk" if KNOWN[f["ieee"]] == f["nwk"] else "leave_of_known_device_other_nwk")
                    if st_ == 2:
                        want.append(("leave", f["nwk"], f["ieee"]))
                        acc.hit("leave")
                    elif dec == 2:
                        acc.hit("deny")
                    else:
                        want.append(("join", f["nwk"], f["ieee"], f["parent"]))
                        acc.hit("join")
                frame = b"".join(frames)
                case = {"version": V, "mix": versions, "reconnect": desc.get("reconnect"), "kind": "tcjoin", "fields": fields_all,
                        "frame": [fr_.hex() for fr_ in frames]}
                rec.clear()
                ex = None
                for fr_ in frames:
                    try:
                        appharness.ezsp_of(app).frame_received(fr_)
                    except BaseException as ex_:  # noqa: BLE001
                        ex = ex_
                if ex is not None:
                    acc.violation("C13/join/raised", f"frame_received raised {ex!r}", case)
                    continue
                ev = [r for r in rec if r[0] in ("join", "leave")]
                if sorted(ev, key=repr) != sorted(want, key=repr):
                    await asyncio.sleep(1.0)  # virtual time: let announcing tasks (if any) finish
                    ev = [r for r in rec if r[0] in ("join", "leave")]
                    acc.hit("join_events_awaited")
                if burst > 1:
                    acc.hit("join_callbacks_back_to_back")
                if sorted(ev, key=repr) != sorted(want, key=repr):
                    fmt = lambda L: [(e[0],) + tuple(x.hex() if isinstance(x, bytes) else x for x in e[1:]) for e in L]  # noqa: E731
                    missing = [w_ for w_ in want if w_ not in ev]
                    extra = [e_ for e_ in ev if e_ not in want]
                    key = "C13/join/denied-join-reported" if (extra and not missing and any(e_[0] == "join" for e_ in extra)) else \
                        "C13/join/leave-not-reported" if any(m_[0] == "leave" for m_ in missing) else "C13/join/wrong-event"
                    acc.violation(key, f"{burst} callback(s) {fields_all}: events {fmt(ev)}, expected {fmt(want)}", case)
                    continue
                acc.nontrivial(frame)
            if i % 200 == 199:
                await asyncio.sleep(0)  # let background tasks (link-key clean-up) make progress
        for m in types_seen:
            acc.reach["mt:%d" % m] += 1

    try:
        vloop.run(main)
    except ncpsim.BringUpFailed:
        pass
    return acc


def post_merge(reach, tier, events=None):
    vs = [k for k in reach if k.startswith("version:")]
    if len(vs) == 11:
        reach["versions_11"] = 11
    mts = [k for k in reach if k.startswith("mt:")]
    if len(mts) == 256:
        reach["all_256_message_types"] = 256
    for k in vs + mts:
        del reach[k]


def replay(case) -> Acc:
    return run_shard({"versions": case.get("mix") or [case["version"]], "reconnect": case.get("reconnect"), "n": 1500 if not case.get("reconnect") else 600,
                      "seed": case.get("seed", 0)})
