"""C18 - status normalisation is total and reports success only for success.

Exhaustive over both 8-bit legacy families (defined and undefined codes), every defined
unified status, every undefined unified value below 0x20000 and seeded undefined 32-bit samples.  The oracle is the fixed numeric
table in rtmon.contracts (values from sl_status.h / EmberStatus, not from the tree).
The same postcondition is installed as an icontract in the workloads of C06..C19.
"""
from __future__ import annotations

import random

from ..contracts import judge, install_status_contract
from ..runner import Acc
from .. import logmode

PROPERTY = "C18"
LEVEL = "exploration"
RULE = (
    "Cases are (status family, numeric value) pairs: all 256 values of EmberStatus and of "
    "EzspStatus (built through the enum constructor, so undefined codes are included), every "
    "member of the unified family, and seeded undefined 32-bit values.  Every pair is distinct; "
    "a case is non-trivial when the conversion returned and was judged against the numeric table."
)
ASSUMPTIONS = [
    "numeric status values in rtmon/contracts.py follow EmberZNet's EmberStatus and sl_status.h",
    "bellows.types exposes EmberStatus, EzspStatus, sl_Status and sl_Status.from_ember_status",
]
EXHAUSTIVE = {
    "quick": "all 256 EmberStatus values, all 256 EzspStatus values, all defined sl_Status members, all undefined unified values below 0x20000",
    "thorough": "all 256 EmberStatus values, all 256 EzspStatus values, all defined sl_Status members, all undefined unified values below 0x20000",
}
REACH = {
    t: ["ember_256", "ezsp_256", "unified_all", "undefined_ember", "undefined_ezsp",
        "undefined_unified", "undefined_unified_8bit", "contract_path", "repeated_conversions_in_varied_order", "warnings_are_errors_shard",
        "serial_protocol_family_converted_first", "families_interleaved_from_the_first_call"]
    for t in ("quick", "thorough")
}


def shards(tier, seed):
    # logging is code: the conversion logs unknown codes, so every logging mode gets the exhaustive part
    n32 = 10000 if tier == "quick" else 300000
    # "order": which family a fresh process converts first (0 legacy stack codes, 1 serial-protocol codes, 2 both and
    # the unified ones in random order from the very first call); "werror": Python warnings are errors
    return [{"seed": seed, "n32": n32, "debuglog": False, "order": 0},
            {"seed": seed + 1, "n32": n32 // 10, "debuglog": True, "order": 1},
            {"seed": seed + 2, "n32": n32 // 10, "debuglog": False, "loglevel": "warning", "order": 2},
            {"seed": seed + 3, "n32": n32 // 10, "debuglog": False, "loglevel": "warning", "order": 1, "werror": True},
            {"seed": seed + 4, "n32": n32 // 10, "debuglog": False, "order": 2, "werror": True}]


def _one(acc, t, fam, status, case):
    acc.case()
    try:
        res = t.sl_Status.from_ember_status(status)
    except Exception as e:  # noqa: BLE001
        acc.violation(f"C18/raises/{fam}", f"from_ember_status({status!r}) raised {e!r}", case)
        return
    v = judge(status, res)
    if v is not None:
        acc.violation(v[0], v[1], case)
    acc.nontrivial((fam, int(status)))
    acc.state((fam, int(res)))


def run_shard(desc) -> Acc:
    import logging

    logmode.apply(desc)
    import bellows.types as t

    acc = Acc()
    if desc.get("werror"):
        # an interpreter run with -W error (test suites, strict deployments): a warning raised inside the conversion
        # would become an exception of the conversion
        import warnings

        warnings.simplefilter("error")
        acc.hit("warnings_are_errors_shard")
    fam_first = [("EmberStatus", t.EmberStatus), ("EzspStatus", t.EzspStatus)]
    if desc.get("order", 0) == 1:
        fam_first.reverse()
        acc.hit("serial_protocol_family_converted_first")
    if desc.get("order", 0) == 2:
        rnd0 = random.Random(desc["seed"] * 31 + 7)
        pool = [(f, c, v) for f, c in fam_first for v in range(256)] * 2
        rnd0.shuffle(pool)
        for f, c, v in pool:
            _one(acc, t, f, c(v), {"family": f, "value": v, "history": "fresh process, both families in random order"})
        acc.hit("families_interleaved_from_the_first_call")
    for fam, cls in fam_first:
        defined = {int(m) for m in cls.__members__.values()}
        for v in range(256):
            case = {"family": fam, "value": v}
            try:
                status = cls(v)
            except Exception as e:  # noqa: BLE001
                acc.violation(f"C18/construct/{fam}", f"{fam}({v}) cannot be constructed: {e!r}", case)
                continue
            if v not in defined:
                acc.hit("undefined_" + ("ember" if fam == "EmberStatus" else "ezsp"))
            _one(acc, t, fam, status, case)
        acc.hit("ember_256" if fam == "EmberStatus" else "ezsp_256")
    for m in t.sl_Status.__members__.values():
        _one(acc, t, "sl_Status", m, {"family": "sl_Status", "value": int(m)})
    acc.hit("unified_all")
    rnd = random.Random(desc["seed"])
    defined = {int(m) for m in t.sl_Status.__members__.values()}
    # every undefined value of the low 17 bits (all the numbers a legacy 8-bit code could be
    # mistaken for live here), then structured and uniformly random 32-bit values
    structured = [(hi << sh) | lo for lo in range(256) for hi in (1, 0x0C, 0x80, 0xFF, 0xFFFFFF) for sh in (8, 16, 24)]
    for v in list(range(0x20000)) + structured + [rnd.getrandbits(32) for _ in range(desc["n32"])]:
        v &= 0xFFFFFFFF
        if v in defined:
            continue
        if v < 256:
            acc.hit("undefined_unified_8bit")
        acc.hit("undefined_unified")
        _one(acc, t, "sl_Status", t.sl_Status(v), {"family": "sl_Status", "value": v})
    # The conversion is a function: what came before must not matter.  The same 8-bit codes again and again - one
    # family hammered first, then the other; interleaved; in random order - each result judged like the first.
    fams = (("EmberStatus", t.EmberStatus), ("EzspStatus", t.EzspStatus))
    for first, second in (fams, fams[::-1]):
        for _rep in range(5):
            for v in range(256):
                _one(acc, t, first[0], first[1](v), {"family": first[0], "value": v, "history": f"pass {_rep + 1} of 5 over this family"})
        for v in range(256):
            _one(acc, t, second[0], second[1](v), {"family": second[0], "value": v, "history": f"after 5 passes over {first[0]}"})
    for _i in range(20000 if desc["n32"] >= 10000 else 4000):
        fam, cls = fams[rnd.randrange(2)]
        v = rnd.choice((rnd.randrange(256), 0x00, 0x72, 0xA1, 0x18, 0x93, 0x90, 0x91, 0xFF, 0xB4, 0x70))
        _one(acc, t, fam, cls(v), {"family": fam, "value": v, "history": "random order, many repeats"})
        if _i % 7 == 0:
            m = rnd.choice(list(t.sl_Status.__members__.values()))
            _one(acc, t, "sl_Status", m, {"family": "sl_Status", "value": int(m), "history": "random order, many repeats"})
    acc.hit("repeated_conversions_in_varied_order")
    # the same postcondition through the icontract wrapper used by the other workloads
    acc2 = Acc()
    install_status_contract(acc2)
    for v in range(256):
        for cls in (t.EmberStatus, t.EzspStatus):
            try:
                t.sl_Status.from_ember_status(cls(v))
            except Exception:  # noqa: BLE001 - already reported by the direct pass above
                acc2.contract_evals["from_ember_status"] += 1
    acc.contract_evals.update(acc2.contract_evals)
    if acc2.contract_evals["from_ember_status"] == 512:
        acc.hit("contract_path")
    for v in acc2.violations:
        acc.violation(v["key"], v["msg"], v["case"])
    for fam, v, label in (("EmberStatus", 0xA1, "0xa1 (NETWORK_BUSY)"), ("EzspStatus", 0xEE, "0xee (undefined)"),
                          ("sl_Status", 0x12345678, "0x12345678 (undefined)")):
        try:
            acc.sample({"family": fam, "value": label, "result": repr(t.sl_Status.from_ember_status(getattr(t, fam)(v)))})
        except Exception as e:  # noqa: BLE001 - reported above
            acc.sample({"family": fam, "value": label, "result": "raised " + repr(e)})
    return acc


def replay(case) -> Acc:
    import bellows.types as t

    acc = Acc()
    fam = case.get("family")
    if fam:
        cls = getattr(t, fam)
        _one(acc, t, fam, cls(case["value"]), case)
    return acc
