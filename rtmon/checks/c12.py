"""C12 - a unicast is reported delivered only on its own delivery confirmation.

ControllerApplication (zigpy.util.Requests shim) + real EZSP in frame mode on the
virtual-time loop, protocol versions 4..14.  Concurrent send_packet() calls with unique
destinations (unicast with / without source route and extended timeout, IEEE-addressed,
multicast, broadcast); per request the NCP follows a script: enqueue statuses (accepted, the
busy statuses, refusals) for up to three attempts, and a confirmation behaviour (success,
failure, none, duplicate, other tag, other destination, unsolicited, before the enqueue reply,
after the confirmation timeout).  sendUnicast / messageSentHandler are parsed and built at byte
level by this module.  The oracle is an offline checker: outcome = f(script), attempt spacing,
no bookkeeping left, set-up frames never interleaved with another request's.
"""
from __future__ import annotations

from ..excfam import family

import asyncio
import logging
import random

from .. import ezspref as X
from .. import vloop, ncpsim, ncpmodel, appharness
from ..runner import Acc
from .. import logmode
from ..contracts import install_status_contract

PROPERTY = "C12"
LEVEL = "exploration"
RULE = (
    "A run = protocol version x 1..5 concurrent requests, each (kind: unicast / +source route / "
    "+extended timeout / both / IEEE-addressed / multicast / broadcast; enqueue-status script of up to 3 "
    "attempts over {accepted, 3 busy statuses, 3 refusals, any other non-busy status code of the family}; "
    "confirmation behaviour from 9 + failure with any status code of the family), optionally "
    "with a concurrent keep-alive.  Single-request scripts are enumerated exhaustively per version "
    "(every enqueue script x every confirmation behaviour for a plain unicast; every kind x a reduced "
    "set); multi-request runs are seeded random.  Non-trivial = not (single request, accepted at once, "
    "confirmed); distinct = distinct (version, request kinds, scripts)."
)
ASSUMPTIONS = [
    "byte layouts of sendUnicast and messageSentHandler in the pre-v14 and v14 field orders (UG100), "
    "encoded/decoded by this module; other bodies via the repository's schema tables",
    "busy statuses: EmberStatus MAX_MESSAGE_LIMIT_REACHED 0x72, NETWORK_BUSY 0xA1, NO_BUFFERS 0x18; on v14 "
    "sl_Status 0x0C03, TRANSMIT_BUSY 0x34, ALLOCATION_FAILED 0x19; RETRY_DELAYS and APS_ACK_TIMEOUT are "
    "read from the tree",
    "a confirmation that precedes the acceptance still counts; zigpy.util.Requests shim (appharness)",
]
REACH = {t: ["versions_11", "enq_accepted", "enq_busy_then_ok", "enq_busy_exhausted", "enq_refused", "conf_success",
             "conf_fail", "conf_none", "conf_duplicate", "conf_other_tag", "conf_other_dest", "conf_unsolicited",
             "conf_before_reply", "conf_late", "setup_overlap_attempted", "kind_mcast", "kind_bcast", "kind_ieee",
             "kind_uni_sr_et", "v14_layout", "pending_empty_checked", "status_family_swept", "conf_foreign_of_every_message_type", "disconnect_while_awaiting_confirmation",
             "fullstack_c12_judged", "fullstack_c12_confirmed_returns"] for t in ("quick", "thorough")}
SHARD_TIMEOUT = {"quick": 900, "thorough": 3600}

ENQ = ["ok", "busy_max", "busy_net", "busy_buf", "ref_call", "ref_down", "ref_undef"]
CONF = ["success", "fail", "none", "duplicate", "other_tag", "other_dest", "unsolicited", "before_reply", "late",
        "foreign_types_then_fail", "foreign_types_fail_then_success"]
KINDS = ["uni", "uni_sr", "uni_et", "uni_sr_et", "ieee", "mcast", "bcast"]
EMBER_ST = dict(ok=0x00, busy_max=0x72, busy_net=0xA1, busy_buf=0x18, ref_call=0x70, ref_down=0x91, ref_undef=0x77, fail=0x66)
SL_ST = dict(ok=0x0000, busy_max=0x0C03, busy_net=0x0034, busy_buf=0x0019, ref_call=0x0002, ref_down=0x0016, ref_undef=0x7777, fail=0x0C01)
SETUP = ("setSourceRoute", "getExtendedTimeout", "lookupNodeIdByEui64", "setExtendedTimeout", "replaceAddressTableEntry")
SENDS = ("sendUnicast", "sendMulticast", "sendBroadcast")


def hdr_len(V):
    return len(X.request_header(V, 0, 0))


def parse_send_unicast(V, raw):
    b = raw[hdr_len(V):]
    mtype, dest = b[0], b[1] | b[2] << 8
    aps, rest = X.parse_aps_frame(b[3:])
    if V >= 14:
        tag, rest = rest[0] | rest[1] << 8, rest[2:]
    else:
        tag, rest = rest[0], rest[1:]
    msg = rest[1:1 + rest[0]]
    return dict(type=mtype, dest=dest, aps=aps, tag=tag, msg=msg, trailing=rest[1 + rest[0]:])


def enc_message_sent(V, seq, mtype, dest, aps, tag, status, msg=b""):
    a = X.aps_frame(aps["profile"], aps["cluster"], aps["src_ep"], aps["dst_ep"], aps["options"], aps["group"], aps["seq"])
    if V >= 14:
        body = X.u32(status) + X.u8(mtype) + X.u16(dest) + a + X.u16(tag) + bytes([len(msg)]) + msg
    else:
        body = X.u8(mtype) + X.u16(dest) + a + X.u8(tag) + X.u8(status) + bytes([len(msg)]) + msg
    return X.response_header(V, seq, 0x3F, callback=True) + body


def request_entries(app, pairs):
    """Entries keyed by a request's (destination, message tag) in any container hanging off the application
    object, whatever the attribute is called -> [(attribute name, key)]."""
    found = []
    for name, val in list(vars(app).items()):
        try:
            keys = list(val.keys()) if isinstance(val, dict) else list(val) if isinstance(val, (set, list, tuple)) else None
        except Exception:  # noqa: BLE001
            keys = None
        for k in keys or ():
            if isinstance(k, tuple) and len(k) == 2:
                try:
                    kk = (int(k[0]), int(k[1]))
                except Exception:  # noqa: BLE001
                    continue
                if kk in pairs:
                    found.append((name, kk))
    return found


def expected(req, APS_T, NRETRY):
    """-> (outcome class, detail)"""
    enq = (req["enq"] + ["ok"] * NRETRY)[:NRETRY]
    for k, st in enumerate(enq):
        if st == "ok":
            break
        if st.startswith("ref"):
            return "DeliveryError", "refused"
    else:
        return "DeliveryError", "busy-exhausted"
    if req["kind"] in ("mcast", "bcast"):
        return "ret", "no-confirmation-needed"
    c = req["conf"]
    if c in ("success", "duplicate", "unsolicited", "before_reply", "foreign_types_fail_then_success"):
        return "ret", "confirmed"
    if c in ("fail", "fail_rand", "foreign_types_then_fail"):
        return "DeliveryError", "confirmed-failure"
    return "TimeoutError", "no-own-confirmation"


def gen_cases(tier, seed, V):
    import bellows.zigbee.application as A_

    NRETRY = len(A_.RETRY_DELAYS)  # attempts per request: read from the tree
    rnd = random.Random(seed * 131 + V)
    cases = []
    # exhaustive single plain unicast: every enqueue script (len<=3, stops at first non-busy) x confirmation
    scripts = []
    busy = [e for e in ENQ if e.startswith("busy")]
    term = ["ok"] + [e for e in ENQ if e.startswith("ref")]
    for n in range(0, 3):
        for pre in ([[]] if n == 0 else ([[b] for b in busy] if n == 1 else [[a, b] for a in busy for b in busy])):
            for tm in term:
                scripts.append(pre + [tm])
    scripts += [[a, b, c] for a in busy for b in busy for c in busy]
    if NRETRY != 3:
        # busy up to and through the last attempt the tree makes
        for n in range(3, NRETRY + 1):
            for j, b0 in enumerate(busy):
                pre = [busy[(j + i) % len(busy)] for i in range(n)]
                scripts += [pre] + ([pre[:-1] + [tm] for tm in term] if n <= NRETRY else [])
    for sc in scripts:
        confs = CONF if sc[-1] == "ok" else ["success"]
        for c in confs:
            cases.append({"reqs": [dict(kind="uni", enq=sc, conf=c)], "feed": False})
    for k in KINDS[1:]:
        for sc in ([["ok"]], [["busy_max", "ok"]], [["ref_call"]], [(["busy_net", "busy_buf", "busy_max"] * NRETRY)[:max(3, NRETRY)]]):
            for c in (CONF if tier == "thorough" else ["success", "fail", "none", "before_reply", "duplicate"]):
                cases.append({"reqs": [dict(kind=k, enq=sc[0], conf=c)], "feed": False})
    # the reason for a refusal / a failed delivery must not matter: every other status code of the family
    for j in range(0, 256):
        cases.append({"reqs": [dict(kind="uni", enq=["ref_rand"] * 3, conf="success", rand=j)], "feed": False})
        cases.append({"reqs": [dict(kind="uni", enq=["ok"], conf="fail_rand", rand=j)], "feed": False})
        if j % 16 == 0:
            cases.append({"reqs": [dict(kind=KINDS[1 + (j // 16) % 6], enq=["busy_max", "ref_rand"], conf="success", rand=j)], "feed": False})
    n = 250 if tier == "quick" else 4000
    for _ in range(n):
        m = rnd.choice([2, 2, 3, 3, 4, 5])
        reqs = []
        for _i in range(m):
            reqs.append(dict(kind=rnd.choice(KINDS + ["uni_sr_et", "uni_et", "uni_sr"]),
                             enq=[rnd.choice(ENQ + ["ok", "ok"]) for _k in range(NRETRY)], conf=rnd.choice(CONF)))
        cases.append({"reqs": reqs, "feed": rnd.random() < 0.4})
    return cases


def shards(tier, seed):
    per = 1 if tier == "quick" else 3
    from .. import fullstack

    return [{"version": v, "tier": tier, "seed": seed, "k": k, "n": per} for v in range(4, 15) for k in range(per)] + \
        fullstack.shard_descs(tier, seed)


def run_shard(desc) -> Acc:
    import zigpy.exceptions
    import zigpy.types as zt

    import bellows.zigbee.application as A

    logmode.apply(desc)
    acc = Acc()
    install_status_contract(acc)
    if desc.get("part") == "fullstack":
        # the same requests through the whole stack: real Gateway + AshProtocol over the faulty line, confirmations
        # delayed, duplicated on the wire and retransmitted by ASH (rtmon/fullstack.py)
        from .. import fullstack

        return fullstack.run_shard_part(acc, PROPERTY, desc)
    V = desc["version"]
    APS_T = float(A.APS_ACK_TIMEOUT)
    DELAYS = [float(x) for x in A.RETRY_DELAYS]
    ST0 = SL_ST if V >= 14 else EMBER_ST
    import bellows.types as bt_

    busy_codes = {ST0[k] for k in ("busy_max", "busy_net", "busy_buf")}
    if V >= 14:
        family = sorted(int(m) for m in bt_.sl_Status if int(m) != 0 and int(m) not in busy_codes) + [0x7777, 0xFFFFFFFF, 0x0F00]
    else:
        family = [c for c in range(1, 256) if c not in busy_codes]
    codes_seen = set()

    class _ST(dict):
        pass

    ST = _ST(ST0)
    acc.reach["version:%d" % V] += 1
    if V >= 14:
        acc.hit("v14_layout")
    cases = gen_cases(desc["tier"], desc["seed"], V)

    async def main(loop):
        clock = loop.time
        ap = await appharness.started_app(loop, V, acc, "C12")
        app, ncp = ap.app, ap.ncp
        own = int(app.state.node_info.nwk)
        cur = {"by_dest": {}, "by_ieee": {}, "frames": [], "confs": []}
        base_dest = [0x1000]

        def send_handler(name):
            def h(n, a):
                raw = n.requests[-1][4]
                seq = n.requests[-1][3]
                now = clock()
                if name == "sendUnicast":
                    p = parse_send_unicast(V, raw)
                    r = cur["by_dest"].get(p["dest"])
                else:
                    # multicast / broadcast: identify by APS group / cluster marker
                    aps = a["apsFrame"] if "apsFrame" in a else a["aps_frame"]
                    r = cur["by_dest"].get(("m", int(aps.clusterId)))
                    p = dict(dest=None, tag=int(a.get("messageTag", a.get("message_tag", 0))), type=None, aps=None, msg=b"")
                if r is None:
                    return [ST["ok"], 0]  # not one of ours (e.g. zigpy's own traffic)
                k = r["attempt"]
                r["attempt"] += 1
                r["send_times"].append(now)
                st = (r["enq"] + ["ok"] * 16)[k] if k < 16 else "ok"
                ST["ref_rand"] = ST["fail_rand"] = family[r.get("rand", 0) % len(family)]
                if st == "ref_rand" or r["conf"] == "fail_rand":
                    codes_seen.add(ST["ref_rand"])
                r["tags"].append(p["tag"])
                if name == "sendUnicast":
                    # bookkeeping while the request is in flight (observability of the "nothing remains" clause)
                    r["held_in"].update(nm_ for nm_, _ in request_entries(app, {(p["dest"], p["tag"])}))
                    if p["trailing"] or p["msg"] != r["payload"]:
                        r["wire_bad"] = f"sendUnicast body {raw.hex()} does not carry the packet payload {r['payload'].hex()}"
                    if p["type"] != 0:
                        r["wire_bad"] = f"sendUnicast message type {p['type']}"
                    if (p["aps"]["profile"], p["aps"]["cluster"], p["aps"]["src_ep"], p["aps"]["dst_ep"], p["aps"]["seq"]) != r["aps5"]:
                        r["wire_bad"] = f"sendUnicast APS frame {p['aps']} != packet {r['aps5']}"
                delay_reply = 0.0
                if st == "ok" and name == "sendUnicast":
                    r["accepted_at"] = now
                    c = r["conf"]

                    def conf(dest, tag, status, dly, mtype=0):
                        # callbacks carry the sequence of the last *completed* command
                        cseq = seq if dly > 0.0 else (seq - 1) % 256
                        fr = enc_message_sent(V, cseq, mtype, dest, p["aps"], tag, status, b"")
                        loop.io_at(now + dly, lambda: (cur["confs"].append((clock(), dest, tag, status)), n._deliver_now(fr)))

                    if c == "success":
                        conf(p["dest"], p["tag"], ST["ok"], 0.05)
                    elif c == "fail":
                        conf(p["dest"], p["tag"], ST["fail"], 0.05)
                    elif c == "fail_rand":
                        conf(p["dest"], p["tag"], ST["fail_rand"], 0.05)
                    elif c == "duplicate":
                        conf(p["dest"], p["tag"], ST["ok"], 0.05)
                        conf(p["dest"], p["tag"], ST["ok"], 0.06)
                        conf(p["dest"], p["tag"], ST["fail"], 0.07)
                    elif c == "other_tag":
                        conf(p["dest"], (p["tag"] + 7) % (65536 if V >= 14 else 256), ST["ok"], 0.05)
                    elif c == "other_dest":
                        conf(p["dest"] ^ 0x0100, p["tag"], ST["ok"], 0.05)
                    elif c == "unsolicited":
                        conf(0x7E7E, 0x55, ST["ok"], 0.02)
                        conf(p["dest"], p["tag"], ST["ok"], 0.05)
                    elif c == "before_reply":
                        conf(p["dest"], p["tag"], ST["ok"], 0.0)
                        delay_reply = 0.05
                    elif c == "late":
                        conf(p["dest"], p["tag"], ST["ok"], APS_T + 1.0)
                    elif c in ("foreign_types_then_fail", "foreign_types_fail_then_success"):
                        # confirmations of every outgoing-message type (for the table / binding types the
                        # NCP reports a table index in the destination field) that carry this request's
                        # tag but another destination value: none of them is this request's own
                        first = ST["ok"] if c == "foreign_types_then_fail" else ST["fail"]
                        for j_, mt_ in enumerate((1, 2, 0, 3, 6, 4, 5, 0x42)):
                            other = (p["dest"] ^ 0x0100) if j_ % 2 else (j_ if j_ != p["dest"] else 0x00F0)
                            conf(other, p["tag"], first, 0.01 + 0.002 * j_, mt_)
                        conf(p["dest"], p["tag"], ST["fail"] if c == "foreign_types_then_fail" else ST["ok"], 0.05)
                        acc.hit("conf_foreign_of_every_message_type")
                elif st == "ok":
                    r["accepted_at"] = now
                if delay_reply:
                    n._send(n.encode(name, [ST[st], 0x11], seq), delay_reply)
                    return None
                return [ST[st], 0x11]
            return h

        for nm in SENDS:
            ncp.handlers[nm] = send_handler(nm)
        ncp.handlers["getExtendedTimeout"] = lambda n, a: [0]
        ncp.handlers["lookupNodeIdByEui64"] = lambda n, a: [0xFFFF if bytes(a["eui64"].serialize())[0] & 1 else 0x4444]
        ncp.handlers["setExtendedTimeout"] = lambda n, a: ([ncpmodel.status(n, "setExtendedTimeout", "ok")] if n.COMMANDS["setExtendedTimeout"][2] else [])

        def replace_at(n, a):
            z = n.zero_reply("replaceAddressTableEntry")
            return z
        ncp.handlers["replaceAddressTableEntry"] = replace_at

        devs = {}
        for j in range(40):
            ieee = zt.EUI64.deserialize(bytes([j, 0xDE, 0xAD, 0xBE, 0xEF, 0x00, 0x12, 0x00]))[0]
            devs[j] = app.add_device(ieee, 0x5000 + j)
        run_no = 0
        for ci, case in enumerate(cases):
            if ci % desc["n"] != desc["k"]:
                continue
            run_no += 1
            acc.case()
            cur["by_dest"].clear()
            cur["by_ieee"].clear()
            cur["confs"].clear()
            n0 = len(ncp.requests)
            t0 = clock()
            reqs = []
            tasks = []
            for i, rq in enumerate(case["reqs"]):
                kind = rq["kind"]
                payload = b"P%03d" % i + bytes([run_no & 0xFF])
                cluster = 0x0100 + i
                r = dict(rq, i=i, attempt=0, send_times=[], tags=[], payload=payload, accepted_at=None, wire_bad=None,
                         outcome=None, t_end=None, held_in=set())
                dev = None
                if kind in ("uni_et", "uni_sr_et", "ieee"):
                    dev = devs[(run_no * 5 + i) % 40]
                    dest = int(dev.nwk)
                    cur["by_ieee"][bytes(dev.ieee.serialize())] = r
                elif kind in ("mcast", "bcast"):
                    dest = ("m", cluster)
                else:
                    base_dest[0] = 0x1000 + (base_dest[0] - 0x1000 + 1) % 0x3000
                    dest = base_dest[0]
                cur["by_dest"][dest] = r
                r["dest"] = dest
                r["aps5"] = (0x0104, cluster, 1, 1, (17 + i) & 0xFF)
                if kind == "mcast":
                    dst = zt.AddrModeAddress(addr_mode=zt.AddrMode.Group, address=0x2000 + i)
                elif kind == "bcast":
                    dst = zt.AddrModeAddress(addr_mode=zt.AddrMode.Broadcast, address=zt.BroadcastAddress.RX_ON_WHEN_IDLE)
                elif kind == "ieee":
                    dst = zt.AddrModeAddress(addr_mode=zt.AddrMode.IEEE, address=dev.ieee)
                else:
                    dst = zt.AddrModeAddress(addr_mode=zt.AddrMode.NWK, address=zt.NWK(dest))
                pkt = zt.ZigbeePacket(
                    src=zt.AddrModeAddress(addr_mode=zt.AddrMode.NWK, address=zt.NWK(own)), src_ep=1, dst=dst, dst_ep=1,
                    tsn=(17 + i) & 0xFF, profile_id=0x0104, cluster_id=cluster, data=zt.SerializableBytes(payload),
                    extended_timeout=kind in ("uni_et", "uni_sr_et"),
                    source_route=[zt.NWK(0x2222), zt.NWK(0x3333)] if kind in ("uni_sr", "uni_sr_et") else None,
                    tx_options=zt.TransmitOptions.ACK, radius=5, non_member_radius=3)
                # what the caller may legally put into a packet besides addresses and payload: a priority of any level
                pr_ = (run_no * 3 + i * 7) % 6
                if pr_ < 4 and hasattr(zt, "PacketPriority"):
                    pkt = pkt.replace(priority=sorted(zt.PacketPriority, key=int)[pr_])
                    acc.hit("packet_priority_%d" % int(pkt.priority))

                async def one(r=r, pkt=pkt):
                    try:
                        await app.send_packet(pkt)
                        r["outcome"] = "ret"
                    except zigpy.exceptions.DeliveryError as ex:
                        r["outcome"] = "DeliveryError"
                        r["exc"] = str(ex)[:80]
                    except asyncio.TimeoutError:
                        r["outcome"] = "TimeoutError"
                    except asyncio.CancelledError:
                        r["outcome"] = "cancelled"
                        raise
                    except BaseException as ex:  # noqa: BLE001
                        r["outcome"] = family(ex)
                        r["exc"] = str(ex)[:80]
                    r["t_end"] = clock()

                reqs.append(r)
                tasks.append(asyncio.ensure_future(one()))
            if case["feed"]:
                tasks.append(asyncio.ensure_future(app._watchdog_feed()))
            done, pend = await asyncio.wait(tasks, timeout=APS_T + 30)
            for t_ in pend:
                t_.cancel()
            await asyncio.sleep(0.2)
            # ---- judge
            c2 = {"version": V, "reqs": case["reqs"], "feed": case["feed"]}
            hist = [(round(rr[0] - t0, 3), rr[1]) for rr in ncp.requests[n0:]][:60]
            bad = []
            for r in reqs:
                exp, why = expected(r, APS_T, len(DELAYS))
                if r["outcome"] is None:
                    bad.append(("C12/termination/send-never-ended", f"request {r['i']} ({r['kind']}) still pending {APS_T + 30}s later"))
                    continue
                if r["outcome"] != exp:
                    key = {("ret", "TimeoutError"): "C12/outcome/no-own-confirmation-yet-delivered" if False else "C12/outcome/own-confirmation-missed",
                           ("TimeoutError", "ret"): "C12/outcome/delivered-without-own-confirmation",
                           ("DeliveryError", "ret"): "C12/outcome/delivered-although-refused-or-failed",
                           }.get((exp, r["outcome"]), f"C12/outcome/expected-{exp}-got-{r['outcome']}")
                    bad.append((key, f"request {r['i']} kind={r['kind']} enqueue={r['enq']} confirmation={r['conf']}: expected {exp} "
                                f"({why}), observed {r['outcome']} {r.get('exc', '')}; confirmations delivered: "
                                f"{[(round(c[0] - t0, 3), hex(c[1]), c[2], hex(c[3])) for c in cur['confs']]}, dest={r['dest']}, tags={r['tags']}"))
                    continue
                if r["wire_bad"]:
                    bad.append(("C12/wire/send-frame-differs-from-packet", r["wire_bad"]))
                if exp == "TimeoutError" and r["accepted_at"] is not None and abs(r["t_end"] - (r["accepted_at"] + APS_T)) > 0.06:
                    bad.append(("C12/timing/confirmation-timeout-instant",
                                f"request {r['i']}: timeout {r['t_end'] - r['accepted_at']:.3f}s after acceptance, APS_ACK_TIMEOUT={APS_T}"))
                if len(set(r["tags"])) > 1:
                    bad.append(("C12/tag/changed-between-attempts", f"request {r['i']} used tags {r['tags']}"))
                for a_, b_, d in zip(r["send_times"], r["send_times"][1:], DELAYS):
                    if b_ - a_ < d - 1e-6:
                        bad.append(("C12/retry/attempts-not-spaced", f"request {r['i']}: attempts {b_ - a_:.3f}s apart, configured delay {d}"))
                if why == "busy-exhausted" and len(r["send_times"]) != len(DELAYS):
                    bad.append(("C12/retry/wrong-number-of-attempts", f"request {r['i']}: {len(r['send_times'])} attempts, expected {len(DELAYS)}"))
                # reach
                acc.hit({"refused": "enq_refused", "busy-exhausted": "enq_busy_exhausted"}.get(why, "enq_accepted"))
                if why not in ("refused", "busy-exhausted") and len(r["send_times"]) > 1:
                    acc.hit("enq_busy_then_ok")
                if r["accepted_at"] is not None and r["kind"] not in ("mcast", "bcast"):
                    acc.hit("conf_" + r["conf"])
                if r["kind"] in ("mcast", "bcast", "ieee", "uni_sr_et"):
                    acc.hit("kind_" + r["kind"])
            # bookkeeping
            held = set().union(*(r["held_in"] for r in reqs)) if reqs else set()
            pairs = {(r["dest"], tg) for r in reqs if isinstance(r["dest"], int) for tg in r["tags"]}
            left = request_entries(app, pairs)
            if left:
                bad.append(("C12/bookkeeping/pending-entry-left", f"entries of finished requests are still held by the application: {left[:4]}"))
            elif held:
                acc.hit("pending_empty_checked")
            try:
                np_ = len(app._pending)
                if np_ != 0 and not left:
                    bad.append(("C12/bookkeeping/pending-entry-left", f"{np_} entr(y/ies) left in the pending table: {list(app._pending)}"))
            except AttributeError:
                pass
            # set-up / send frames of different requests never interleave
            openr = None
            for rr in ncp.requests[n0:]:
                name, args = rr[1], rr[2]
                who = None
                if name == "setSourceRoute":
                    who = cur["by_dest"].get(int(args["destination"]))
                elif name in ("getExtendedTimeout", "setExtendedTimeout"):
                    who = cur["by_ieee"].get(bytes(args["remoteEui64"].serialize()))
                elif name == "lookupNodeIdByEui64":
                    who = cur["by_ieee"].get(bytes(args["eui64"].serialize()))
                elif name == "replaceAddressTableEntry":
                    who = cur["by_ieee"].get(bytes(args["newEui64"].serialize()))
                elif name == "sendUnicast":
                    who = cur["by_dest"].get(parse_send_unicast(V, rr[4])["dest"])
                elif name in ("sendMulticast", "sendBroadcast"):
                    aps = args["apsFrame"] if "apsFrame" in args else args["aps_frame"]
                    who = cur["by_dest"].get(("m", int(aps.clusterId)))
                else:
                    continue
                if who is None:
                    continue
                if openr is not None and openr is not who:
                    bad.append(("C12/interleave/setup-of-two-requests-interleaved",
                                f"{name} of request {who['i']} appeared between the set-up and the send of request {openr['i']}"))
                    break
                openr = None if name in SENDS else who
            setups = sum(1 for r in reqs if r["kind"] in ("uni_sr", "uni_et", "uni_sr_et"))
            if setups >= 2:
                acc.hit("setup_overlap_attempted")
            for key, msg in bad[:3]:
                acc.violation(key, msg, c2, hist)
            triv = len(reqs) == 1 and reqs[0]["enq"][:1] == ["ok"] and reqs[0]["conf"] == "success"
            if not triv:
                acc.nontrivial((V, tuple((r["kind"], tuple(r["enq"]), r["conf"]) for r in reqs), case["feed"]))
            if len(acc.samples) < 2 and len(reqs) >= 3:
                acc.sample({"case": c2, "outcomes": [(r["kind"], r["enq"], r["conf"], r["outcome"]) for r in reqs],
                            "ncp_saw": hist[:30]})

    async def main_disconnect(loop):
        """Last act of the shard: the application is disconnected (link loss, shutdown, reconnect) while
        accepted unicasts are still waiting for their confirmations.  Nobody cancelled the senders: each
        ends with the timeout / delivery error the property names, never with a CancelledError of its own."""
        ap = await appharness.started_app(loop, V, acc, "C12")
        app, ncp = ap.app, ap.ncp
        own = int(app.state.node_info.nwk)
        for nm in SENDS:
            ncp.handlers[nm] = lambda n, a: [ST["ok"], 0x11]
        outcomes = []

        async def one(i):
            pkt = zt.ZigbeePacket(
                src=zt.AddrModeAddress(addr_mode=zt.AddrMode.NWK, address=zt.NWK(own)), src_ep=1,
                dst=zt.AddrModeAddress(addr_mode=zt.AddrMode.NWK, address=zt.NWK(0x6000 + i)), dst_ep=1, tsn=40 + i, profile_id=0x0104,
                cluster_id=6, data=zt.SerializableBytes(b"bye%d" % i), tx_options=zt.TransmitOptions.ACK, radius=5)
            try:
                await app.send_packet(pkt)
                outcomes.append("ret")
            except zigpy.exceptions.DeliveryError:
                outcomes.append("DeliveryError")
            except asyncio.TimeoutError:
                outcomes.append("TimeoutError")
            except asyncio.CancelledError:
                outcomes.append("CancelledError")
            except BaseException as ex:  # noqa: BLE001
                outcomes.append(family(ex))

        tasks = [asyncio.ensure_future(one(i)) for i in range(3)]
        await asyncio.sleep(1.0)
        acc.case()
        case = {"version": V, "reqs": "three accepted unicasts awaiting confirmation", "then": "disconnect()"}
        try:
            await app.disconnect()
        except BaseException as ex:  # noqa: BLE001
            acc.violation("C12/disconnect/raised", f"disconnect() raised {ex!r}", case)
        await asyncio.wait(tasks, timeout=APS_T + 30)
        for t_ in tasks:
            if not t_.done():
                t_.cancel()
        if any(o in ("CancelledError", "ret") for o in outcomes) or len(outcomes) != 3:
            acc.violation("C12/outcome/unconfirmed-send-ended-by-disconnect-as-" + (outcomes + ["pending"])[0],
                          f"unicasts that were accepted but never confirmed ended with {outcomes} after disconnect(); nobody cancelled "
                          "their callers and no confirmation arrived", case)
        else:
            acc.hit("disconnect_while_awaiting_confirmation")
        acc.nontrivial((V, "disconnect-during-pending"))

    try:
        vloop.run(main)
        if desc["k"] == 0:
            vloop.run(main_disconnect)
    except ncpsim.BringUpFailed:
        pass
    acc.ev("distinct_refusal_or_failure_status_codes", len(codes_seen))
    if len(codes_seen) >= min(len(family), 80 // max(1, desc["n"])):
        acc.hit("status_family_swept")
    return acc


def post_merge(reach, tier, events=None):
    vs = [k for k in reach if k.startswith("version:")]
    if len(vs) == 11:
        reach["versions_11"] = 11
    for k in vs:
        del reach[k]


def replay(case) -> Acc:
    print("replay: re-running the version's shard (cases are generated from the seed)")
    return run_shard({"version": case["version"], "tier": "quick", "seed": 0, "k": 0, "n": 1})
