"""C09 - bring-up negotiates the NCP's protocol version and frames everything accordingly.

Wire mode on the virtual-time loop: real EZSP -> real bellows.uart.connect -> real Gateway +
AshProtocol -> fake serial transport -> faulty FIFO line -> independent NCP-side ASH endpoint
-> framing-strict frame-level NCP of version V.  Sequence under test:
    connect, startup_reset, write_config({}), reset, version, write_config({}),
    stop_ezsp, startup_reset, write_config({})   (the last three are ControllerApplication._reset()).
The oracle sits on the NCP side and decodes headers independently.
"""
from __future__ import annotations

import asyncio
import itertools
import logging

from .. import ashref as R
from .. import ezspref as X
from .. import vloop, wire, ncpsim
from ..runner import Acc
from .. import logmode
from ..contracts import install_status_contract

PROPERTY = "C09"
LEVEL = "fault_enumeration"
RULE = (
    "A run = (NCP protocol version in 4..14, 15, 16, 32) x (device path: serial, or socket:// with the "
    "NCP's spontaneous start-up RSTACK absent / at 0.5 s (seen) / at 1.5 s (late; the RST sent meanwhile lost, "
    "or read by the NCP once it is up)) x (fault vector over "
    "the first 12 frames on the line: none, every single fault, every pair of faults, each from {drop, "
    "detectable corruption, duplicate in a read of its own, duplicate within one read}).  Non-trivial = at least one fault, or a socket path; distinct = "
    "distinct (version, path mode, fault vector)."
)
ASSUMPTIONS = [
    "the simulated NCP answers the legacy version query in the legacy format in every version, everything "
    "else only in its own layout, and ignores frames not framed for its version (UG100)",
    "NCPs newer than the newest known tables use the v8+ header layout and the newest known command tables",
    "with a fault on an RST/RSTACK frame bring-up may fail, but cleanly, and a second connect must succeed; "
    "with faults on DATA/ACK frames only it must complete (ASH recovers); an RSTACK doubled within a single "
    "read is not a reason to fail (the handshake is complete before the host has sent anything)",
    "when protocol.data_received() raises, the fake transport does what asyncio transports do: it closes and "
    "reports connection_lost(exc)",
    "rtmon.ashref.RefNcpAsh conforms to UG101",
]
REACH = {t: ["versions_all", "socket_seen", "socket_late", "socket_absent", "serial", "second_reset_fallback",
             "recovered_data_fault", "clean_failure_on_rst_fault", "second_connect_ok", "newer_than_known",
             "double_fault", "rstack_doubled_in_one_read", "socket_late_queued", "startup_reset_again_on_same_connection",
             "command_racing_a_reset", "callback_in_flight_at_reset", "callback_in_flight_frame_numbers_8"] for t in ("quick", "thorough")}
SHARD_TIMEOUT = {"quick": 900, "thorough": 3600}
VERSIONS = list(range(4, 15)) + [15, 16, 32]
KINDS = ["drop", "corrupt", "dup", "dup1"]  # dup: copy in a read of its own; dup1: both copies in one read
NF = 12


def vectors(tier, V):
    out = [[]]
    for i in range(NF):
        for k in KINDS:
            v = ["ok"] * NF
            v[i] = k
            out.append(v)
    dbl = tier == "thorough" or V in (4, 7, 13)
    if dbl:
        for i, j in itertools.combinations(range(NF), 2):
            for k1 in KINDS:
                for k2 in KINDS:
                    if tier == "quick" and (i + j + KINDS.index(k1) + KINDS.index(k2)) % 3:
                        continue
                    v = ["ok"] * NF
                    v[i], v[j] = k1, k2
                    out.append(v)
    return out


def shards(tier, seed):
    out = []
    for V in VERSIONS:
        for mode in ("serial", "sock_absent", "sock_seen", "sock_late", "sock_late_queued"):
            out.append({"version": V, "mode": mode, "tier": tier, "seed": seed})
    return out


def run_case(V, mode, vector, seed, inflight=None):
    trace: list = []
    info = {"steps": [], "hang": False, "second": None, "version": None, "handler": None}

    async def main(loop):
        path = "/dev/ttyVERIF" if mode == "serial" else "socket://ncp.example:9999"
        ws = wire.WireStack(loop, V, trace, vector=vector, seed=seed, path=path)
        ws.install_serial()
        try:
            async def attempt(tag, armed):
                ez = ws.new_ezsp()
                step = "connect"
                try:
                    await ez.connect(use_thread=False)
                    ws.line.armed = armed
                    if mode in ("sock_seen", "sock_late", "sock_late_queued") and tag == "first":
                        # the NCP (zigbeed) is still booting: deaf until it announces itself - or, in
                        # the "queued" variant, it reads what arrived meanwhile once it is up (its boot
                        # RSTACK is then followed at once by the RSTACK answering the host's RST)
                        ws.silent = True
                        held = []
                        if mode == "sock_late_queued":
                            orig_h2n = ws.line.sink["h2n"]
                            ws.line.sink["h2n"] = lambda chunk: held.append(chunk) if ws.silent else orig_h2n(chunk)

                        def boot():
                            ws.silent = False
                            if not held:
                                ws.spontaneous_reset()
                                return
                            # boot RSTACK and the answer to the RST read from the socket buffer leave
                            # the NCP back to back and reach the host in one read
                            out = []
                            real_send = ws.line.send
                            ws.line.send = lambda d, data: out.append(bytes(data)) if d == "n2h" else real_send(d, data)
                            try:
                                ws.spontaneous_reset()
                                for chunk in held:
                                    ws.ash.feed(chunk)
                            finally:
                                ws.line.send = real_send
                            held.clear()
                            ws.line.send("n2h", b"".join(out))

                        loop.io_at(loop.time() + (0.5 if mode == "sock_seen" else 1.5), boot)
                    step = "startup_reset"
                    await ez.startup_reset()
                    info["steps"].append((tag, "startup_reset", "ok"))
                    step = "write_config"
                    await ez.write_config({})
                    info["steps"].append((tag, "write_config", "ok"))
                    info["version"] = ez.ezsp_version
                    info["handler"] = type(getattr(ez, "_protocol", None)).__name__
                    # ordinary use between resets: a raw command and a helper implemented by the version's handler
                    step = "use1"
                    await ez.getEui64()
                    await ez.read_counters()
                    step = "reset"
                    # another task (a keep-alive, an application request) issues a command while the reset is
                    # in progress: whatever happens to it, it must not reach the freshly reset NCP ahead of the
                    # version negotiation
                    if inflight is not None:
                        # the NCP has a callback on the wire when the host's RST is written: the host reads that
                        # DATA frame (whose frame number is `inflight`) after its RST and before the RSTACK
                        for _ in range(8):
                            if ws.ash.frm_tx == inflight:
                                break
                            await ez.nop()
                        if ws.ash.frm_tx == inflight and not ws.ash.failed:
                            ws.ncp.callback("stackStatusHandler", [0x90])
                            info["inflight"] = inflight
                    trace.append(("mark", loop.time(), "second_reset"))
                    rst = asyncio.ensure_future(ez.reset())
                    await asyncio.sleep(0)
                    racer = asyncio.ensure_future(ez.nop())
                    await rst
                    step = "version"
                    await ez.version()
                    step = "write_config2"
                    await ez.write_config({})
                    step = "use2"
                    await ez.getEui64()
                    await ez.read_counters()
                    try:
                        await asyncio.wait_for(racer, 15)
                        info["racer"] = "returned"
                    except BaseException as ex_:  # noqa: BLE001
                        info["racer"] = type(ex_).__name__
                    info["steps"].append((tag, "second_round", "ok"))
                    info["version2"] = ez.ezsp_version
                    # what ControllerApplication._reset() does on the same connection
                    step = "third_startup_reset"
                    trace.append(("mark", loop.time(), "third_round"))
                    ez.stop_ezsp()
                    await ez.startup_reset()
                    step = "write_config3"
                    await ez.write_config({})
                    step = "use3"
                    await ez.getEui64()
                    await ez.read_counters()
                    info["steps"].append((tag, "third_round", "ok"))
                    info["version3"] = ez.ezsp_version
                    return ez, None
                except BaseException as ex:  # noqa: BLE001
                    info["steps"].append((tag, step, repr(ex)[:160]))
                    try:
                        ez.close()
                    except BaseException as ex2:  # noqa: BLE001
                        info["steps"].append((tag, "close", repr(ex2)[:160]))
                    return None, ex

            ez, err = await attempt("first", True)
            if err is not None:
                await asyncio.sleep(0.5)
                trace.append(("mark", loop.time(), "second_connect"))
                ws.line.vector = []  # the line is clean from now on
                ws.line.closed = False
                ez2, err2 = await attempt("second", False)
                info["second"] = "ok" if err2 is None else repr(err2)[:200]
                if ez2 is not None:
                    ez2.close()
            else:
                ez.close()
            await asyncio.sleep(0.2)
        finally:
            ws.uninstall_serial()
        info["framing_errors"] = [(t_, d.hex(), why) for (t_, d, why) in ws.ncp.framing_errors]
        info["requests"] = [(r[1], r[5], r[4]) for r in ws.ncp.requests]

    try:
        vloop.run(main)
    except vloop.Deadlock:
        info["hang"] = True
    return trace, info


def judge(V, mode, vector, trace, info):
    bad = []
    facts = set()
    if info["hang"]:
        bad.append(("C09/hang", "the event loop ran dry during bring-up"))
        return bad, facts
    lines = [e for e in trace if e[0] == "line"]
    # A fault on a reset frame may legitimately fail the bring-up - except an RSTACK that is
    # merely doubled *within one read*: both copies are in the host's hands before it has sent
    # anything, the handshake is complete, and nothing about the second copy can undo it.
    fault_on_reset = any(e[4] != "ok" and e[3] and e[3][0] in ("RST", "RSTACK")
                         and not (e[4] == "dup1" and e[3][0] == "RSTACK") for e in lines)
    if any(e[4] == "dup1" and e[3] and e[3][0] == "RSTACK" for e in lines):
        facts.add("rstack_doubled_in_one_read")
    any_fault = any(e[4] != "ok" for e in lines)
    first_ok = all(s[2] == "ok" for s in info["steps"] if s[0] == "first") and \
        any(s[1] == "third_round" for s in info["steps"] if s[0] == "first")
    # framing on the wire, as seen by the strict NCP
    if info.get("framing_errors"):
        fe = info["framing_errors"][0]
        bad.append(("C09/framing/frame-not-in-negotiated-layout",
                    f"NCP v{V} received a frame it cannot parse in its layout: {fe[1]} ({fe[2]})"))
    # RST before DATA (or a spontaneous RSTACK seen first)
    seen_handshake = False
    for e in lines:
        if e[2] == "h2n" and e[3] and e[3][0] == "RST":
            if not e[5]:
                bad.append(("C09/handshake/rst-without-cancel-prefix", "RST frame not prefixed with CANCEL"))
            seen_handshake = True
        if e[2] == "n2h" and e[3] and e[3][0] == "RSTACK" and e[4] in ("ok", "dup", "dup1"):
            seen_handshake = True
        if e[2] == "h2n" and e[3] and e[3][0] == "D" and not seen_handshake:
            bad.append(("C09/handshake/data-before-reset", "a DATA frame was written before any reset handshake"))
            break
    # per NCP reset: first EZSP frame legacy version, then version(V) in V's layout
    segs = [[]]
    for e in trace:
        if e[0] == "ncp_reset":
            segs.append([])
        elif e[0] == "ncp_rx":
            segs[-1].append(e)
    for si, seg in enumerate(segs[1:] if len(segs) > 1 else segs):
        if not seg:
            continue
        f0 = seg[0]
        if not (f0[2] == "version" and f0[3] == "legacy"):
            bad.append(("C09/negotiation/first-frame-after-reset-not-legacy-version",
                        f"after an NCP reset the first EZSP frame was {f0[2]} ({f0[3]}): {f0[4].hex()}"))
            continue
        facts.add("legacy_first")
        if V != 4 and len(seg) > 1:
            # retransmissions never reach this level (the ASH endpoint de-duplicates)
            nxt = next((x for x in seg[1:] if not (x[2] == "version" and x[3] == "legacy")), None)
            if nxt is not None:
                try:
                    seq, cid, body = X.parse_request(V, nxt[4])
                    okv = cid == 0 and body == bytes([V])
                except X.BadHeader:
                    okv = False
                if not okv:
                    bad.append(("C09/negotiation/second-query-not-in-new-format",
                                f"NCP v{V}: the frame after the legacy query is {nxt[4].hex()}, expected version({V}) in its layout"))
    if sum(1 for e in trace if e[0] == "mark" and e[2] == "second_reset") and first_ok:
        # after the second reset the legacy fallback must be seen again
        idx = next(i for i, e in enumerate(trace) if e[0] == "mark" and e[2] == "second_reset")
        after = [e for e in trace[idx:] if e[0] == "ncp_rx"]
        if after and after[0][2] == "version" and after[0][3] == "legacy":
            facts.add("second_reset_fallback")
        elif after:
            bad.append(("C09/negotiation/no-legacy-fallback-after-reset",
                        f"after the second reset the first frame was {after[0][4].hex()}"))
    if first_ok and any(e[0] == "mark" and e[2] == "third_round" for e in trace):
        # a start-up reset on the same connection: no spontaneous RSTACK arrives this time, so the
        # host must reset the NCP itself and negotiate again from the legacy format
        idx = next(i for i, e in enumerate(trace) if e[0] == "mark" and e[2] == "third_round")
        seg = trace[idx:]
        rst = [e for e in seg if e[0] == "line" and e[2] == "h2n" and e[3] and e[3][0] == "RST"]
        rx3 = [e for e in seg if e[0] == "ncp_rx"]
        if not rst:
            bad.append(("C09/handshake/startup-reset-without-reset",
                        "startup_reset() on the established connection wrote no RST although the NCP sent no RSTACK of its own; "
                        f"first EZSP frame afterwards: {rx3[0][2:4] if rx3 else None}"))
        elif rx3 and not (rx3[0][2] == "version" and rx3[0][3] == "legacy"):
            bad.append(("C09/negotiation/no-legacy-fallback-after-reset", f"after the third reset the first frame was {rx3[0][4].hex()}"))
        else:
            facts.add("startup_reset_again_on_same_connection")
    # outcome
    if first_ok:
        if info["version"] != V or info.get("version2") != V or info.get("version3") != V:
            bad.append(("C09/version/not-adopted", f"NCP v{V}: EZSP.ezsp_version is {info['version']} / {info.get('version2')}"))
        want_handler = "EZSPv%d" % min(V, 14)
        if info["handler"] not in (want_handler, "NoneType"):
            bad.append(("C09/version/wrong-command-tables", f"NCP v{V}: handler is {info['handler']}, expected {want_handler}"))
        if any_fault:
            facts.add("recovered_data_fault")
    else:
        failed = next(s for s in info["steps"] if s[0] == "first" and s[2] != "ok")
        if not fault_on_reset:
            key = "C09/bring-up/failed"
            if "KeyError" in failed[2] and failed[1].startswith("write_config"):
                key = "C09/bring-up/default-config-missing-for-newer-version"
            elif any_fault:
                key = "C09/bring-up/failed-although-only-data-or-ack-frames-were-faulted"
            raised = [e[2] for e in trace if e[0] == "protocol_raised"]
            if raised and "rstack_doubled_in_one_read" in facts:
                key = "C09/handshake/doubled-rstack-breaks-bring-up"
            bad.append((key, f"NCP v{V} ({mode}, faults {[(i, f) for i, f in enumerate(vector) if f != 'ok']}): "
                        f"step {failed[1]} ended with {failed[2]}"
                        + (f"; the serial receive callback raised {raised[0]}" if raised else "")))
        else:
            facts.add("clean_failure_on_rst_fault")
        if info["second"] is not None:
            if info["second"] != "ok":
                if fault_on_reset:
                    bad.append(("C09/recovery/second-connect-failed", f"after a failed bring-up a second connect ended with {info['second']}"))
            else:
                facts.add("second_connect_ok")
    return bad, facts


def pretty(trace):
    out = []
    for e in trace:
        if e[0] == "line":
            out.append(f"{e[1] - 100:8.4f} {'host->ncp' if e[2] == 'h2n' else 'ncp->host'} {e[3]} [{e[4]}]")
        elif e[0] in ("ezsp_rx", "ezsp_tx"):
            out.append(f"{e[1] - 100:8.4f} {e[0]} {e[2].hex()}")
        elif e[0] == "ncp_rx":
            out.append(f"{e[1] - 100:8.4f} ncp_rx {e[2]} {e[3]}")
        else:
            out.append(f"{e[1] - 100:8.4f} {e[0]} {e[2:]}")
    return out


def run_shard(desc) -> Acc:
    logmode.apply(desc)
    acc = Acc()
    install_status_contract(acc)
    V, mode = desc["version"], desc["mode"]
    vecs = vectors(desc["tier"], V)
    if mode != "serial":
        vecs = vecs[: 1 + NF * len(KINDS)] if desc["tier"] == "thorough" else vecs[:1] + vecs[1:1 + NF * len(KINDS):4]
    acc.reach["version:%d" % V] += 1
    for vi, vec in enumerate(vecs):
        acc.case()
        inflight = (vi + V) % 9 if (vi + V) % 9 < 8 else None
        trace, info = run_case(V, mode, vec, desc["seed"], inflight)
        bad, facts = judge(V, mode, vec, trace, info)
        case = {"version": V, "mode": mode, "vector": vec, "seed": desc["seed"], "inflight": inflight}
        if info.get("inflight") is not None:
            acc.hit("callback_in_flight_at_reset")
            acc.reach["inflight_frm:%d" % info["inflight"]] += 1
        for key, msg in bad[:3]:
            acc.violation(key, msg, case, pretty(trace)[:80] + [repr(s) for s in info["steps"]])
        for f in facts:
            acc.hit(f)
        acc.hit({"serial": "serial", "sock_absent": "socket_absent", "sock_seen": "socket_seen", "sock_late": "socket_late",
                 "sock_late_queued": "socket_late_queued"}[mode])
        if V >= 15:
            acc.hit("newer_than_known")
        if info.get("racer"):
            acc.hit("command_racing_a_reset")
        if sum(1 for f in vec if f != "ok") == 2:
            acc.hit("double_fault")
        if any(f != "ok" for f in vec) or mode != "serial":
            acc.nontrivial((V, mode, tuple(vec)))
        for e in trace:
            acc.ev(e[0])
        if len(acc.samples) < 1 and any(f != "ok" for f in vec):
            acc.sample({"case": case, "steps": info["steps"], "trace": pretty(trace)[:40]})
    return acc


def post_merge(reach, tier, events=None):
    vs = [k for k in reach if k.startswith("version:")]
    if len(vs) == len(VERSIONS):
        reach["versions_all"] = len(vs)
    for k in vs:
        del reach[k]
    fs = [k for k in reach if k.startswith("inflight_frm:")]
    if len(fs) == 8:
        reach["callback_in_flight_frame_numbers_8"] = 8
    for k in fs:
        del reach[k]


def replay(case) -> Acc:
    acc = Acc()
    trace, info = run_case(case["version"], case["mode"], case["vector"], case.get("seed", 0), case.get("inflight"))
    bad, facts = judge(case["version"], case["mode"], case["vector"], trace, info)
    print("\n".join(pretty(trace)))
    print(info["steps"], info.get("second"))
    for key, msg in bad:
        acc.violation(key, msg, case)
    return acc
