"""C20 - the cross-thread proxy runs calls on the owner's loop and relays results.

Real bellows.thread.EventLoopThread + ThreadsafeProxy around a probe object, driven with
*real threads*: callers are the owner loop itself and several other threads each running its
own event loop, in bursts, while the owner loop is running, being stopped (force_stop racing
the burst) and closed.  A tiny interpreter switch interval and a sys.monitoring LINE hook on
bellows/thread.py that yields the GIL with seeded probability create interleavings inside the
proxy's dispatch code.  The probe records, under a lock, the thread and loop each body ran on.
"""
from __future__ import annotations

import asyncio
import inspect
import random
import sys
import threading
import time

from ..runner import Acc
from .. import logmode

PROPERTY = "C20"
LEVEL = "exploration"
RULE = (
    "A case = one proxied call: (method kind: coroutine returning / coroutine raising / plain "
    "returning None / plain returning a value / plain raising / non-callable attribute) x (caller: "
    "owner loop, other thread's loop; wrapper looked up at the call, or earlier on the owner loop / on "
    "another loop / in a thread with no loop) x (owner-loop state: open but not started, between two run "
    "phases, running, being stopped, closed), issued in "
    "bursts from 2-4 caller threads with seeded GIL yields injected on the lines of bellows/thread.py. "
    "Non-trivial = cross-thread calls; distinct = distinct (method kind, caller kind, loop state, "
    "observed outcome, number of yields injected during the call capped at 3) tuples."
)
ASSUMPTIONS = [
    "the probe's own log is protected by a lock; thread identity is threading.get_ident() inside the body",
    "calls racing the stop of the owner loop may execute, be dropped, raise or (for coroutine calls) "
    "never resolve - the property only forbids executing on the caller's thread; the closed state is "
    "entered only after the thread-complete future resolved (happens-before)",
    "real time is used only for watchdogs; a watchdog firing makes the run inconclusive, not a violation",
]
REACH = {t: ["co_value_cross_running", "co_raise_cross_running", "plain_none_cross_running", "plain_value_cross_running",
             "plain_raise_cross_running", "attr_cross_running", "owner_loop_calls", "cross_stopping", "cross_closed",
             "closed_coroutine_call", "yield_injected_in_dispatch", "four_caller_threads", "wrapper_looked_up_elsewhere",
             "queued_while_not_running_not_started", "queued_while_not_running_between_run_phases",
             "fire_and_forget_executed", "handed_over_before_stop_running", "handed_over_before_stop_queued",
             "proxy_is_sole_holder_of_object", "slow_unwind_relayed", "slow_unwind_relayed_after_1s",
             "plain_falsy_result_objected", "owner_loop_generations",
             "uart_application_callbacks_on_owner_thread", "uart_gateway_calls_on_serial_thread", "uart_attribute_refused",
             "uart_call_after_close_dropped"] for t in ("quick", "thorough")}
SHARD_TIMEOUT = {"quick": 300, "thorough": 900}
KINDS = ["co_value", "co_raise", "plain_none", "plain_value", "plain_raise", "attr"]


class ProbeError(Exception):
    pass


class Probe:
    attr = 42

    def __init__(self, log=None, lock=None):
        self.lock = lock or threading.Lock()
        self.log = log if log is not None else []  # (tag, kind, thread ident, id(running loop) | None)

    def _rec(self, tag, kind):
        try:
            lp = id(asyncio.get_running_loop())
        except RuntimeError:
            lp = None
        with self.lock:
            self.log.append((tag, kind, threading.get_ident(), lp))

    async def co_value(self, tag):
        self._rec(tag, "co_value")
        await asyncio.sleep(0)
        return ("v", tag)

    async def co_raise(self, tag):
        self._rec(tag, "co_raise")
        raise ProbeError(tag)

    def plain_none(self, tag):
        self._rec(tag, "plain_none")

    def plain_value(self, tag):
        self._rec(tag, "plain_value")
        return 5

    def plain_raise(self, tag):
        self._rec(tag, "plain_raise")
        raise ProbeError(tag)

    def plain_returns(self, tag, value):
        self._rec(tag, "plain_returns")
        return value

    async def co_forever(self, tag):
        self._rec(tag, "co_forever")
        await asyncio.Event().wait()

    async def co_slow_unwind(self, tag, delay, end):
        """A coroutine with clean-up work: cancelled, it needs `delay` seconds before it ends - with a value,
        with an exception of its own, or by letting the cancellation through."""
        self._rec(tag, "co_slow_unwind")
        try:
            await asyncio.Event().wait()
        except asyncio.CancelledError:
            await asyncio.sleep(delay)
            if end == "value":
                return ("unwound", tag)
            if end == "raise":
                raise ProbeError(tag)
            raise

    def plain_block(self, gate):
        # keeps the owner's loop busy until the harness opens the gate
        gate.wait(10)


class YieldInjector:
    """sys.monitoring LINE hook restricted to bellows/thread.py: yields the GIL with probability p."""

    def __init__(self, seed, p):
        self.rnd = random.Random(seed)
        self.p = p
        self.lock = threading.Lock()
        self.total = 0
        self.in_dispatch = 0
        self.per_thread = {}
        self.tool = None
        self.tls = threading.local()

    def install(self):
        import bellows.thread as bt

        mon = sys.monitoring
        self.tool = mon.PROFILER_ID
        try:
            mon.use_tool_id(self.tool, "rtmon-c20")
        except ValueError:
            mon.free_tool_id(self.tool)
            mon.use_tool_id(self.tool, "rtmon-c20")
        fname = bt.__file__

        def on_line(code, line):
            if code.co_filename != fname:
                return mon.DISABLE
            with self.lock:
                hit = self.rnd.random() < self.p
                if hit:
                    self.total += 1
                    # "in the dispatch" = on a line of bellows/thread.py that runs in a caller's thread while a
                    # proxied call is being made there (between the call and the hand-over), whatever the
                    # functions involved are called
                    if getattr(self.tls, "calling", False):
                        self.in_dispatch += 1
                    t_ = threading.get_ident()
                    self.per_thread[t_] = self.per_thread.get(t_, 0) + 1
            if hit:
                time.sleep(0)
            return None

        mon.register_callback(self.tool, mon.events.LINE, on_line)
        mon.set_events(self.tool, mon.events.LINE)

    def uninstall(self):
        mon = sys.monitoring
        mon.set_events(self.tool, 0)
        mon.register_callback(self.tool, mon.events.LINE, None)
        mon.free_tool_id(self.tool)

    def count(self):
        with self.lock:
            return self.per_thread.get(threading.get_ident(), 0)


def shards(tier, seed):
    n = 6 if tier == "quick" else 24
    return [{"seed": seed * 100 + i, "threads": 2 + i % 3, "rounds": 2 if tier == "quick" else 4,
             "burst": 150 if tier == "quick" else 600, "p": [0.02, 0.1, 0.3][i % 3]} for i in range(n)] + \
        [{"part": "uart", "seed": seed * 100 + 90 + j, "rounds": 6 if tier == "quick" else 30, "debuglog": bool(j)} for j in range(2)]


def run_uart(desc) -> Acc:
    """The proxies where bellows itself puts them: bellows.uart.connect(use_thread=True) wraps the application in
    a proxy bound to the caller's loop and hands back the gateway in a proxy bound to the serial thread's loop.
    Frames, an ERROR frame and a connection loss are produced inside the serial thread; commands are issued
    from the caller's loop.  Every body must run on its object's own thread; private / non-callable attributes
    are refused; after the serial thread's loop is closed calls are dropped."""
    import zigpy.serial

    import bellows.uart as uart
    from .. import ashref as R
    from .. import ncpsim

    logmode.apply(desc)
    acc = Acc()
    rnd = random.Random(desc["seed"])
    main_ident = threading.get_ident()

    class App:
        def __init__(self):
            self.events = []

        def _rec(self, what, arg):
            try:
                loop = asyncio.get_running_loop()
            except RuntimeError:
                loop = None
            self.events.append((what, arg, threading.get_ident(), loop))

        def enter_failed_state(self, code):
            self._rec("failed", int(code))

        def connection_lost(self, exc):
            self._rec("lost", type(exc).__name__ if exc is not None else None)

        def frame_received(self, data):
            self._rec("frame", bytes(data))

    class FakeTr:
        def __init__(self):
            self.writes = []
            self.closing = False

        def write(self, data):
            self.writes.append((bytes(data), threading.get_ident()))

        def is_closing(self):
            return self.closing

        def close(self):
            self.closing = True

    async def one(rno):
        box = {}
        saved = zigpy.serial.create_serial_connection

        async def fake_serial(loop, protocol_factory, **kw):
            proto = protocol_factory()
            tr = FakeTr()
            box.update(loop=loop, proto=proto, tr=tr, ident=threading.get_ident())
            loop.call_soon(proto.connection_made, tr)
            return tr, proto

        zigpy.serial.create_serial_connection = fake_serial
        app = App()
        my_loop = asyncio.get_running_loop()
        try:
            gw = await uart.connect(ncpsim.device_config("/dev/ttyVERIF"), app, use_thread=True)
        finally:
            zigpy.serial.create_serial_connection = saved
        case = {"part": "uart", "round": rno, "seed": desc["seed"]}
        acc.case()
        if box.get("ident") in (None, main_ident):
            acc.violation("C20/uart/serial-port-opened-on-the-callers-thread", "uart.connect(use_thread=True) opened the port on the caller's thread", case)
            return
        wl = box["loop"]

        def in_worker(fn, *a):
            wl.call_soon_threadsafe(fn, *a)

        # 1. NCP -> application: produced in the serial thread, must be executed on the caller's (= the application's) thread
        in_worker(box["proto"].data_received, R.encode_rstack(0x0B))
        n_frames = rnd.choice([1, 3, 8])
        payloads = [b"\x01\x80\x00" + bytes([rno, k]) + rnd.randbytes(rnd.choice([0, 3, 40])) for k in range(n_frames)]
        for k, pl in enumerate(payloads):
            in_worker(box["proto"].data_received, R.encode_data(k % 8, 0, 0, pl))
        for _ in range(4000):  # up to 20 s of real time on a loaded machine; normally a few ms
            if sum(1 for e in app.events if e[0] == "frame") >= n_frames:
                break
            await asyncio.sleep(0.005)
        got = [e for e in app.events if e[0] == "frame"]
        if [e[1] for e in got] != payloads:
            acc.violation("C20/uart/frames-not-relayed-to-the-application",
                          f"frames handed up in the serial thread: {[p.hex() for p in payloads]}; the application received {[e[1].hex() for e in got]} within 20 s", case)
        for e in app.events:
            if e[2] != main_ident or e[3] is not my_loop:
                acc.violation("C20/uart/application-called-on-the-serial-thread",
                              f"application.{e[0]} ran on thread {e[2]} (the application's own is {main_ident}; serial thread {box['ident']})", case)
                break
        else:
            acc.hit("uart_application_callbacks_on_owner_thread", len(app.events))
        # 2. caller -> gateway: coroutine method, result relayed, body on the serial thread
        nw = len(box["tr"].writes)
        call = asyncio.ensure_future(gw.send_data(b"\x00\x00\x02"))  # nobody acknowledges: it stays pending, that is fine
        for _ in range(4000):
            if len(box["tr"].writes) > nw or call.done():
                break
            await asyncio.sleep(0.005)
        r = "pending" if not call.done() else (call.exception() if not call.cancelled() else "cancelled")
        call.cancel()
        wr = box["tr"].writes[nw:]
        if not wr:
            acc.violation("C20/uart/gateway-call-not-executed", f"gw.send_data() from the caller's loop wrote nothing (ended with {r!r})", case)
        elif any(t_ != box["ident"] for _, t_ in wr):
            acc.violation("C20/uart/gateway-called-on-the-callers-thread", "gw.send_data() wrote to the port from a thread other than the serial thread", case)
        else:
            acc.hit("uart_gateway_calls_on_serial_thread")
        # 3. non-callable / private attributes are refused, not handed out
        for name in ("_transport", "_application", "_reset_future"):
            try:
                v = getattr(gw, name)
                if callable(v):
                    continue  # a wrapper: fine, it refuses when called (checked by the probe shards)
                acc.violation("C20/uart/attribute-handed-out", f"gateway proxy handed out non-callable attribute {name} = {type(v).__name__}", case)
            except TypeError:
                acc.hit("uart_attribute_refused")
            except AttributeError:
                pass
        # 4. failure paths: ERROR frame, then connection loss - both must reach the application on its own thread
        n0 = len(app.events)
        code = rnd.choice([0x51, 0x80, 0x02])
        in_worker(box["proto"].data_received, R.encode_error(code))
        await asyncio.sleep(0.05)
        kind = rnd.choice(["error", "eof"])

        def lose():
            box["tr"].closing = True
            if kind == "eof":
                box["proto"].eof_received()
            else:
                box["proto"].connection_lost(OSError("serial port gone"))

        in_worker(lose)
        for _ in range(4000):  # up to 20 s of real time on a loaded machine; normally a few ms
            if any(e[0] == "lost" for e in app.events[n0:]):
                break
            await asyncio.sleep(0.005)
        ev = app.events[n0:]
        if not any(e[0] == "failed" and e[1] == code for e in ev):
            acc.violation("C20/uart/failure-not-relayed", f"ERROR({code:#x}) in the serial thread never reached application.enter_failed_state: {[(e[0], e[1]) for e in ev]}", case)
        if not any(e[0] == "lost" for e in ev):
            acc.violation("C20/uart/loss-not-relayed", f"connection loss ({kind}) in the serial thread never reached application.connection_lost", case)
        for e in ev:
            if e[2] != main_ident:
                acc.violation("C20/uart/application-called-on-the-serial-thread", f"application.{e[0]} ran on thread {e[2]}, not the application's own", case)
                break
        # 5. the serial thread ends after the loss; once its loop is closed, calls are dropped: no execution, no blocking
        for _ in range(4000):
            if wl.is_closed():
                break
            await asyncio.sleep(0.005)
        if wl.is_closed():
            nw = len(box["tr"].writes)
            t0 = time.monotonic()
            try:
                r = gw.send_data(b"\x01\x00\x02")  # dropped calls hand back nothing at all (not even an awaitable)
                if inspect.isawaitable(r):
                    r = await asyncio.wait_for(r, 20.0)
                if r is not None or len(box["tr"].writes) != nw:
                    acc.violation("C20/uart/call-after-close-executed", f"gw.send_data() after the serial loop was closed returned {r!r} / wrote {len(box['tr'].writes) - nw} frame(s)", case)
                else:
                    acc.hit("uart_call_after_close_dropped")
            except asyncio.TimeoutError:
                acc.violation("C20/uart/call-after-close-blocked", "gw.send_data() after the serial loop was closed was still pending 20 s later", case)
            except BaseException as ex:  # noqa: BLE001
                acc.violation("C20/uart/call-after-close-raised", f"gw.send_data() after the serial loop was closed raised {ex!r} after {time.monotonic() - t0:.2f}s", case)
        else:
            acc.ev("uart_serial_loop_not_closed_within_20s")
        acc.nontrivial(("uart", n_frames, kind, code))

    async def main():
        for r in range(desc["rounds"]):
            await one(r)

    asyncio.run(main())
    acc.sample({"part": "uart", "rounds": desc["rounds"]})
    return acc


def run_shard(desc) -> Acc:
    import logging

    import bellows.thread as bt

    if desc.get("part") == "uart":
        return run_uart(desc)
    logmode.apply(desc)
    acc = Acc()
    sys.setswitchinterval(1e-5)
    inj = YieldInjector(desc["seed"], desc["p"])
    inj.install()
    results = []  # (tag, kind, caller, state, outcome, yields)
    rlock = threading.Lock()
    tagc = [0]

    def newtag():
        with rlock:
            tagc[0] += 1
            return tagc[0]

    async def one_call(proxy, kind, caller, state, rnd, saved=None):
        tag = newtag()
        y0 = inj.count()
        outcome = None
        inj.tls.calling = caller == "other"
        try:
            if saved is not None and kind != "attr":
                # the wrapper was looked up earlier, in another context (another loop / no loop)
                if isinstance(saved.get(kind), BaseException):
                    raise saved[kind]
                res = saved[kind](tag)
                with rlock:
                    saved_calls[0] += 1
                if inspect.isawaitable(res):
                    try:
                        v = await asyncio.wait_for(res, 3.0 if state == "running" else 0.7)
                        outcome = ("value", v)
                    except ProbeError as e:
                        outcome = ("ProbeError", e.args[0])
                    except asyncio.TimeoutError:
                        outcome = ("unresolved",)
                    except asyncio.CancelledError:
                        outcome = ("cancelled",)
                else:
                    outcome = ("returned", res)
            elif kind == "attr":
                try:
                    proxy.attr
                    outcome = ("no-error",)
                except TypeError:
                    outcome = ("TypeError",)
            elif kind == "co_value" and state == "running" and caller == "other" and rnd.random() < 0.25:
                # fire and forget: the caller never awaits what it got back; the call must run all the same
                kept.append(getattr(proxy, kind)(tag))
                outcome = ("forgotten",)
            else:
                res = getattr(proxy, kind)(tag)
                if inspect.isawaitable(res):
                    try:
                        v = await asyncio.wait_for(res, 3.0 if state == "running" else 0.7)
                        outcome = ("value", v)
                    except ProbeError as e:
                        outcome = ("ProbeError", e.args[0])
                    except asyncio.TimeoutError:
                        outcome = ("unresolved",)
                    except asyncio.CancelledError:
                        outcome = ("cancelled",)
                else:
                    outcome = ("returned", res)
        except ProbeError as e:
            outcome = ("ProbeError-sync", e.args[0])
        except RuntimeError as e:
            outcome = ("RuntimeError", str(e)[:40])
        except BaseException as e:  # noqa: BLE001
            outcome = (type(e).__name__, str(e)[:40])
        inj.tls.calling = False
        with rlock:
            results.append((tag, kind, caller, state, outcome, min(3, inj.count() - y0)))

    saved_calls = [0]
    kept = []  # results of fire-and-forget calls, kept alive until the end of the shard

    def lookup_all(proxy):
        out = {}
        for k in KINDS:
            if k != "attr":
                try:
                    out[k] = getattr(proxy, k)
                except BaseException as e:  # noqa: BLE001
                    out[k] = e
        return out

    def caller_thread(proxy, n, state, seed, stop_evt, saved_sets=()):
        rnd = random.Random(seed)
        # wrappers looked up in this thread before any loop runs in it
        mine = [lookup_all(proxy)] if saved_sets else []

        async def w():
            for _ in range(n):
                if stop_evt is not None and stop_evt.is_set() and state == "stopping":
                    pass
                sv = None
                if saved_sets and rnd.random() < 0.35:
                    sv = rnd.choice(list(saved_sets) + mine)
                await one_call(proxy, rnd.choice(KINDS), "other", state, rnd, sv)
                if rnd.random() < 0.1:
                    await asyncio.sleep(0)

        asyncio.run(w())

    async def paused_owner_phase(rd):
        """The owner's loop is open but not running at the instant of the call (not started yet,
        or between two run phases): the call is queued, and executes - on the owner's thread -
        as soon as the loop runs; coroutine results are relayed then."""
        ready, gate1, mid, gate2 = (threading.Event() for _ in range(4))
        box = {}

        def owner_main():
            loop = asyncio.new_event_loop()
            asyncio.set_event_loop(loop)
            box["loop"], box["ident"] = loop, threading.get_ident()
            ready.set()
            gate1.wait(10)
            loop.run_until_complete(asyncio.sleep(0.02))
            mid.set()
            gate2.wait(10)
            loop.run_forever()
            loop.close()

        th = threading.Thread(target=owner_main)
        th.start()
        while not ready.is_set():
            await asyncio.sleep(0.001)
        probe = Probe()
        proxy = bt.ThreadsafeProxy(probe, box["loop"])
        r2 = random.Random(desc["seed"] * 3 + rd)
        pend = []  # (tag, kind, when, immediate result)

        def issue(when):
            for kind in [k for k in KINDS if k != "attr"] * 2:
                tag = newtag()
                try:
                    res = getattr(proxy, kind)(tag)
                except BaseException as e:  # noqa: BLE001
                    res = e
                pend.append((tag, kind, when, res))

        issue("not-started")
        await asyncio.sleep(0.005)
        with probe.lock:
            early = list(probe.log)
        gate1.set()
        while not mid.is_set():
            await asyncio.sleep(0.001)
        issue("between-run-phases")
        gate2.set()
        outcomes = {}
        for (tag, kind, when, res) in pend:
            if inspect.isawaitable(res):
                try:
                    outcomes[tag] = ("value", await asyncio.wait_for(res, 3.0))
                except ProbeError as e:
                    outcomes[tag] = ("ProbeError", e.args[0])
                except asyncio.TimeoutError:
                    outcomes[tag] = ("unresolved",)
                except BaseException as e:  # noqa: BLE001
                    outcomes[tag] = (type(e).__name__, str(e)[:40])
            elif isinstance(res, BaseException):
                outcomes[tag] = (type(res).__name__, str(res)[:40])
            else:
                outcomes[tag] = ("returned", res)
        # barrier, then stop the owner loop
        done = threading.Event()
        box["loop"].call_soon_threadsafe(done.set)
        for _ in range(3000):
            if done.is_set():
                break
            await asyncio.sleep(0.001)
        box["loop"].call_soon_threadsafe(box["loop"].stop)
        while th.is_alive():
            await asyncio.sleep(0.001)
        with probe.lock:
            log = list(probe.log)
        by_tag = {}
        for (tag, kind, ident, lp) in log:
            by_tag.setdefault(tag, []).append((ident, lp))
        if early:
            acc.violation("C20/thread/body-ran-off-the-owner-loop", f"a call executed while the owner loop was not running: {early[:2]}",
                          {"phase": "paused"})
        for (tag, kind, when, res) in pend:
            acc.case()
            case = {"phase": "owner loop open, not running (" + when + ")", "kind": kind, "outcome": repr(outcomes[tag])}
            ex = by_tag.get(tag, [])
            if any(ident != box["ident"] or lp != id(box["loop"]) for ident, lp in ex):
                acc.violation("C20/thread/body-ran-off-the-owner-loop", f"{kind} executed on {ex}, owner thread is {box['ident']}", case)
            want = {"co_value": ("value", ("v", tag)), "co_raise": ("ProbeError", tag)}.get(kind, ("returned", None))
            if len(ex) != 1:
                acc.violation("C20/exec/queued-call-not-executed-once",
                              f"{kind} issued while the owner's loop was open but not running ({when}) executed {len(ex)} times once the loop ran", case)
            elif outcomes[tag] != want:
                key = "C20/relay/coroutine-result" if kind.startswith("co_") else "C20/relay/plain-call-must-return-nothing"
                acc.violation(key, f"{kind} ({when}) gave {outcomes[tag]}, expected {want}", case)
            else:
                acc.hit("queued_while_not_running_" + when.replace("-", "_"))
            acc.nontrivial((kind, "other", when, outcomes[tag][0], 0))
            acc.state((kind, "other", when, outcomes[tag][0]))

    async def stop_with_queued_calls_phase(rd):
        """Coroutine calls handed to the owner's loop *before* force_stop() is called - some already
        running there, some not yet picked up because the loop is busy - must all come back to their
        callers (cancelled), none may be left hanging when the loop goes away."""
        thread = bt.EventLoopThread()
        complete = await thread.start()
        probe = Probe()
        proxy = bt.ThreadsafeProxy(probe, thread.loop)
        r2 = random.Random(desc["seed"] * 5 + rd)
        n_running, n_queued = r2.choice([0, 1, 2]), r2.choice([1, 2, 3])
        futs = []
        for _ in range(n_running):
            futs.append(("running", proxy.co_forever(newtag())))
        if n_running:
            await thread.run_coroutine_threadsafe(asyncio.sleep(0.01))  # those are started now
        gate = threading.Event()
        proxy.plain_block(gate)
        await asyncio.sleep(0.005)  # the owner's loop is inside plain_block now
        for _ in range(n_queued):
            futs.append(("queued", proxy.co_forever(newtag())))
        thread.force_stop()
        gate.set()
        for when, f in futs:
            acc.case()
            case = {"phase": "force_stop with calls handed over before it", "call": when}
            if not inspect.isawaitable(f):
                acc.violation("C20/relay/coroutine-result", f"coroutine call returned {f!r} instead of an awaitable", case)
                continue
            try:
                await asyncio.wait_for(f, 3.0)
                out = "returned"
            except asyncio.CancelledError:
                out = "cancelled"
            except asyncio.TimeoutError:
                out = "unresolved"
            except BaseException as e:  # noqa: BLE001
                out = type(e).__name__
            if out == "unresolved":
                acc.violation("C20/stop/call-handed-over-before-stop-left-hanging",
                              f"a coroutine call {when} on the owner's loop when force_stop() was called never came back to its caller", case)
            else:
                acc.hit("handed_over_before_stop_" + when)
            acc.nontrivial(("co_forever", "other", "stop-" + when, out, 0))
            acc.state(("co_forever", "other", "stop-" + when, out))
        try:
            await asyncio.wait_for(asyncio.shield(complete), 5.0)
        except BaseException:  # noqa: BLE001
            acc.notes.append("owner thread did not complete within 5 s after force_stop")

    async def slow_unwind_phase(rd):
        """Coroutine calls in flight at force_stop() whose coroutines take a while to unwind after being
        cancelled (a finally / except block that awaits: flush, close handshake): whatever each ends with - a
        value, its own exception, the cancellation - reaches its caller; none is abandoned half-way."""
        thread = bt.EventLoopThread()
        complete = await thread.start()
        probe = Probe()
        proxy = bt.ThreadsafeProxy(probe, thread.loop)
        plan = [(0.05, "value"), (0.3, "raise"), (1.4, "value"), (1.25, "raise"), (1.6, "cancel"), (0.0, "value")]
        futs = [(d, e_, newtag()) for d, e_ in plan]
        futs = [(d, e_, tg, proxy.co_slow_unwind(tg, d, e_)) for d, e_, tg in futs]
        await thread.run_coroutine_threadsafe(asyncio.sleep(0.02))  # all of them are running now
        t_stop = time.monotonic()
        thread.force_stop()

        # no wall-clock verdicts: wait (under a generous watchdog) until the owner's thread has ended - from then
        # on nothing can complete a call any more - and only then look at what each caller got
        try:
            await asyncio.wait_for(asyncio.shield(complete), 60.0)
        except BaseException:  # noqa: BLE001
            acc.notes.append("owner thread did not end within 60 s after force_stop with slowly unwinding calls: phase not judged")
            return
        ended_after = time.monotonic() - t_stop
        aws = [asyncio.ensure_future(f) for _, _, _, f in futs if inspect.isawaitable(f)]
        await asyncio.wait(aws, timeout=1.0)
        for (d, e_, tg, f), fut in zip(futs, aws):
            acc.case()
            case = {"phase": "force_stop with slowly unwinding coroutine calls in flight", "unwind_s": d, "ends_with": e_,
                    "owner_thread_ended_after_s": round(ended_after, 2)}
            if not fut.done():
                out = "unresolved"
                fut.cancel()
            elif fut.cancelled():
                out = "cancel"
            elif isinstance(fut.exception(), ProbeError):
                out = "raise"
            elif fut.exception() is not None:
                out = type(fut.exception()).__name__
            else:
                out = "value" if fut.result() == ("unwound", tg) else f"returned {fut.result()!r}"
            if out == "unresolved":
                acc.violation("C20/stop/call-in-flight-at-stop-left-hanging",
                              f"a coroutine call that needs {d}s to unwind after cancellation (ending with {e_}) never came back to its "
                              f"caller: the owner's thread ended {ended_after:.2f}s after force_stop() with the call still pending", case)
            elif out != e_:
                acc.violation("C20/relay/outcome-of-unwinding-coroutine-not-relayed",
                              f"the coroutine ended with {e_} {d}s after force_stop(); its caller observed {out}", case)
            else:
                acc.hit("slow_unwind_relayed" + ("_after_1s" if d > 1.0 else ""))
            acc.nontrivial(("co_slow_unwind", "other", "stop", e_, d))
            acc.state(("co_slow_unwind", "other", "stop", out))


    PLAIN_VALUES = [5, 0, False, b"", "", [], 0.0, (), {}, True, b"x", "ok"]

    async def plain_return_values_phase(thread, proxy, probe, owner_ident, owner_loop_id):
        """'For plain methods the call is queued and must return nothing': a plain method that does hand
        something back is not passed over in silence.  What counts as the proxy objecting is kept wide - the
        owner loop's exception handler is invoked, or a record of WARNING or above is logged by bellows - and
        what is returned is irrelevant: 0, False, b"" are as much 'something' as 5.  None draws no objection.
        One call at a time, with a barrier on the owner loop after each, so objections are attributed exactly."""
        owner_loop = thread.loop
        seen = []
        slock = threading.Lock()

        def handler(loop_, ctx):
            with slock:
                seen.append(("loop", repr(ctx.get("exception") or ctx.get("message"))[:80]))

        class Cap(logging.Handler):
            def emit(self, record):
                if record.levelno >= logging.WARNING:
                    with slock:
                        seen.append(("log", record.getMessage()[:80]))

        cap = Cap()
        old_disable = logging.root.manager.disable
        lg = logging.getLogger("bellows")
        old_level = lg.level
        logging.disable(logging.NOTSET)
        if lg.getEffectiveLevel() > logging.WARNING or lg.level == 0:
            lg.setLevel(logging.WARNING)
        lg.addHandler(cap)

        async def install():
            asyncio.get_running_loop().set_exception_handler(handler)

        async def uninstall():
            asyncio.get_running_loop().set_exception_handler(None)

        await thread.run_coroutine_threadsafe(install())
        try:
            for value in [None] + PLAIN_VALUES + [None]:
                tag = newtag()
                with slock:
                    n0 = len(seen)
                acc.case()
                case = {"phase": "running", "kind": "plain method returning " + repr(value), "caller": "other"}
                try:
                    got = proxy.plain_returns(tag, value)
                except BaseException as e:  # noqa: BLE001
                    acc.violation("C20/relay/plain-call-must-return-nothing", f"the call itself raised {e!r} in the caller", case)
                    continue
                await thread.run_coroutine_threadsafe(asyncio.sleep(0.005))
                await thread.run_coroutine_threadsafe(asyncio.sleep(0))
                with probe.lock:
                    execs = [(i_, l_) for (t_, k_, i_, l_) in probe.log if t_ == tag]
                with slock:
                    objections = seen[n0:]
                if got is not None:
                    acc.violation("C20/relay/plain-call-must-return-nothing", f"caller received {got!r}", case)
                elif execs != [(owner_ident, owner_loop_id)]:
                    acc.violation("C20/exec/call-not-executed-once", f"executed {len(execs)} times / off the owner loop: {execs}", case)
                elif value is None and objections:
                    acc.violation("C20/plain/objection-to-a-method-returning-nothing", f"objections {objections} to a plain method that returned None", case)
                elif value is not None and not objections:
                    acc.violation("C20/plain/non-none-result-accepted-silently",
                                  f"a plain method returned {value!r} through the proxy and nothing objected (no loop exception, no warning)", case)
                else:
                    acc.hit("plain_falsy_result_objected" if (value is not None and not value) else "plain_result_judged")
                acc.nontrivial(("plain_returns", repr(value), bool(objections)))
        finally:
            await thread.run_coroutine_threadsafe(uninstall())
            lg.removeHandler(cap)
            lg.setLevel(old_level)
            logging.disable(old_disable)

    async def loop_generations_phase(n):
        """Owner loops come and go (every reconnect makes a new EventLoopThread) and CPython re-uses the
        addresses of freed objects: whatever the proxy remembers about a closed loop must not stick to the
        next one.  n generations: start, call (coroutine + plain) across threads, stop, call the closed
        loop once, drop every reference, collect."""
        import gc

        for g in range(n):
            th = bt.EventLoopThread()
            done = await th.start()
            pr = Probe()
            px = bt.ThreadsafeProxy(pr, th.loop)
            ident = []

            async def who():
                ident.append(threading.get_ident())

            await th.run_coroutine_threadsafe(who())
            lid = id(th.loop)
            t1, t2 = newtag(), newtag()
            acc.case()
            case = {"phase": "running", "kind": "co_value + plain_none", "caller": "other", "generation": g}
            try:
                r1 = px.co_value(t1)
                r1 = ("value", await asyncio.wait_for(r1, 3.0)) if inspect.isawaitable(r1) else ("returned", r1)
            except BaseException as e:  # noqa: BLE001
                r1 = (type(e).__name__, str(e)[:60])
            try:
                r2 = ("returned", px.plain_none(t2))
            except BaseException as e:  # noqa: BLE001
                r2 = (type(e).__name__, str(e)[:60])
            await th.run_coroutine_threadsafe(asyncio.sleep(0.002))
            with pr.lock:
                ex = {t_: (i_, l_) for (t_, k_, i_, l_) in pr.log}
            if r1 != ("value", ("v", t1)) or r2 != ("returned", None) or ex.get(t1) != (ident[0], lid) or ex.get(t2) != (ident[0], lid):
                acc.violation("C20/exec/call-not-executed-once",
                              f"generation {g} of owner loops (running): co_value gave {r1}, plain_none gave {r2}, executed: {sorted(ex)} "
                              f"(expected both once on the owner loop)", case)
            else:
                acc.hit("owner_loop_generations")
            th.force_stop()
            await done
            t3 = newtag()
            try:
                r3 = px.co_value(t3)
            except BaseException as e:  # noqa: BLE001
                r3 = e
            if r3 is not None:
                acc.violation("C20/closed/call-not-dropped", f"generation {g}: coroutine call on the closed loop gave {r3!r}",
                              {"phase": "closed", "kind": "co_value", "generation": g})
                if inspect.iscoroutine(r3):
                    r3.close()
            del th, done, pr, px, r1, r2, r3, ex
            gc.collect()

    async def main():
        rnd = random.Random(desc["seed"])
        for rd in range(desc["rounds"]):
            await paused_owner_phase(rd)
            await stop_with_queued_calls_phase(rd)
            if rd == 0:
                await slow_unwind_phase(rd)
            thread = bt.EventLoopThread()
            complete = await thread.start()
            owner_loop = thread.loop
            owner_loop_id = id(owner_loop)
            probe = Probe()
            proxy = bt.ThreadsafeProxy(probe, owner_loop)
            owner_ident = []

            async def whoami():
                owner_ident.append(threading.get_ident())

            await thread.run_coroutine_threadsafe(whoami())
            # wrappers looked up once and called later from elsewhere (cb = proxy.method is how
            # callbacks are handed around): looked up on the owner loop, on this (another) loop
            saved_on_owner = {}

            async def lookup_on_owner():
                saved_on_owner.update(lookup_all(proxy))

            await thread.run_coroutine_threadsafe(lookup_on_owner())
            saved_on_main = lookup_all(proxy)
            # ---------------- running
            ths = [threading.Thread(target=caller_thread, args=(proxy, desc["burst"], "running", desc["seed"] * 31 + rd * 7 + k, None,
                                                                (saved_on_owner, saved_on_main)))
                   for k in range(desc["threads"])]
            for th in ths:
                th.start()

            async def owner_burst():
                r2 = random.Random(desc["seed"] + rd)
                for _ in range(desc["burst"] // 3):
                    sv = r2.choice([None, None, saved_on_main, saved_on_owner])
                    await one_call(proxy, r2.choice(KINDS), "owner", "running", r2, sv)

            await thread.run_coroutine_threadsafe(owner_burst())
            # a proxy that is the ONLY holder of the object it wraps (ThreadsafeProxy(Target(), loop)):
            # the object must live as long as the proxy, garbage collections notwithstanding
            import gc

            sole_log, sole_lock = [], threading.Lock()
            sole = bt.ThreadsafeProxy(Probe(sole_log, sole_lock), owner_loop)
            gc.collect()
            sole_out = []
            for kind_ in ("co_value", "plain_none", "co_raise", "co_value"):
                tag_ = newtag()
                try:
                    r_ = getattr(sole, kind_)(tag_)
                    if inspect.isawaitable(r_):
                        try:
                            r_ = ("value", await asyncio.wait_for(r_, 3.0))
                        except ProbeError as e_:
                            r_ = ("ProbeError", e_.args[0])
                    else:
                        r_ = ("returned", r_)
                except BaseException as e_:  # noqa: BLE001
                    r_ = (type(e_).__name__, str(e_)[:60])
                sole_out.append((tag_, kind_, r_))
                gc.collect()
            await thread.run_coroutine_threadsafe(asyncio.sleep(0.01))
            with sole_lock:
                sole_exec = {t_: (i_, l_) for (t_, k_, i_, l_) in sole_log}
            for (tag_, kind_, r_) in sole_out:
                acc.case()
                want_ = {"co_value": ("value", ("v", tag_)), "co_raise": ("ProbeError", tag_), "plain_none": ("returned", None)}[kind_]
                case_ = {"phase": "running", "kind": kind_, "caller": "other", "proxy": "sole holder of the wrapped object", "outcome": repr(r_)}
                if r_ != want_ or tag_ not in sole_exec:
                    acc.violation("C20/exec/call-not-executed-once",
                                  f"{kind_} through a proxy that is the only holder of its object gave {r_} "
                                  f"({'executed' if tag_ in sole_exec else 'never executed'}), expected {want_}", case_)
                elif sole_exec[tag_] != (owner_ident[0], owner_loop_id):
                    acc.violation("C20/thread/body-ran-off-the-owner-loop", f"{kind_} ran on {sole_exec[tag_]}", case_)
                else:
                    acc.hit("proxy_is_sole_holder_of_object")
            for th in ths:
                while th.is_alive():
                    await asyncio.sleep(0.01)
            # barrier: everything queued from the caller threads has run once this returns
            for _ in range(3):
                await thread.run_coroutine_threadsafe(asyncio.sleep(0.01))
            with probe.lock:
                log_running = list(probe.log)
            judge_phase(acc, "running", results, log_running, owner_ident[0], owner_loop_id)
            await plain_return_values_phase(thread, proxy, probe, owner_ident[0], owner_loop_id)
            n_running = len(results)
            # ---------------- stopping: force_stop races a burst
            stop_evt = threading.Event()
            ths = [threading.Thread(target=caller_thread, args=(proxy, desc["burst"] // 2, "stopping", desc["seed"] * 17 + rd * 5 + k, stop_evt))
                   for k in range(desc["threads"])]
            for th in ths:
                th.start()
            await asyncio.sleep(rnd.choice([0.0, 0.002, 0.01]))
            thread.force_stop()
            stop_evt.set()
            await complete
            closed_at = len(results)
            for th in ths:
                while th.is_alive():
                    await asyncio.sleep(0.01)
            with probe.lock:
                log_all = list(probe.log)
            judge_phase(acc, "stopping", results[n_running:], log_all, owner_ident[0], owner_loop_id)
            n_stop = len(results)
            # ---------------- closed (thread-complete future resolved: happens-before)
            with probe.lock:
                n_log = len(probe.log)
            ths = [threading.Thread(target=caller_thread, args=(proxy, 40, "closed", desc["seed"] * 13 + rd * 3 + k, None))
                   for k in range(desc["threads"])]
            t0 = time.time()
            for th in ths:
                th.start()
            for th in ths:
                while th.is_alive():
                    await asyncio.sleep(0.01)
            dt = time.time() - t0
            with probe.lock:
                log_closed = probe.log[n_log:]
            judge_closed(acc, results[n_stop:], log_closed, dt)
            results.clear()
            if desc["threads"] >= 4:
                acc.hit("four_caller_threads")
            del thread, complete, owner_loop, probe, proxy, saved_on_owner, saved_on_main, sole
            await loop_generations_phase(desc.get("generations", 30))

    try:
        asyncio.run(main())
    finally:
        inj.uninstall()
    acc.ev("calls_through_saved_wrappers", saved_calls[0])
    if saved_calls[0]:
        acc.hit("wrapper_looked_up_elsewhere")
    acc.ev("yields_injected", inj.total)
    acc.ev("yields_injected_in_dispatch", inj.in_dispatch)
    if inj.in_dispatch:
        acc.hit("yield_injected_in_dispatch", inj.in_dispatch)
    acc.sample({"threads": desc["threads"], "burst": desc["burst"], "yield_probability": desc["p"],
                "yields_injected": inj.total, "in_dispatch": inj.in_dispatch})
    return acc


def judge_phase(acc, phase, results, log, owner_ident, owner_loop_id):
    by_tag = {}
    for (tag, kind, ident, lp) in log:
        by_tag.setdefault(tag, []).append((kind, ident, lp))
    for (tag, kind, caller, state, outcome, ny) in results:
        acc.case()
        case = {"phase": state, "kind": kind, "caller": caller, "outcome": repr(outcome)}
        execs = by_tag.get(tag, [])
        # never on the caller's thread: every execution of a cross-loop call is on the owner thread+loop
        for (k2, ident, lp) in execs:
            if caller == "other" and (ident != owner_ident or lp != owner_loop_id):
                acc.violation("C20/thread/body-ran-off-the-owner-loop",
                              f"{kind} called from another thread's loop executed on thread {ident} (owner {owner_ident}), "
                              f"loop {'owner' if lp == owner_loop_id else lp}", case)
        if len(execs) > 1:
            acc.violation("C20/exec/body-ran-twice", f"{kind} executed {len(execs)} times", case)
        if state == "running":
            if kind == "attr":
                if outcome != ("TypeError",):
                    acc.violation("C20/attr/non-callable-not-refused", f"non-callable attribute access ended with {outcome}", case)
                else:
                    acc.hit("attr_cross_running" if caller == "other" else "owner_loop_calls")
            elif caller == "other":
                if len(execs) != 1:
                    acc.violation("C20/exec/call-not-executed-once", f"{kind} from another loop executed {len(execs)} times while the owner loop was running", case)
                if kind == "co_value" and outcome == ("forgotten",):
                    if len(execs) == 1:
                        acc.hit("fire_and_forget_executed")
                elif kind == "co_value" and outcome != ("value", ("v", tag)):
                    acc.violation("C20/relay/coroutine-result", f"co_value returned {outcome}, expected ('v', {tag})", case)
                elif kind == "co_raise" and outcome != ("ProbeError", tag):
                    acc.violation("C20/relay/coroutine-exception", f"co_raise gave {outcome}, expected ProbeError({tag})", case)
                elif kind.startswith("plain") and outcome != ("returned", None):
                    acc.violation("C20/relay/plain-call-must-return-nothing", f"{kind} gave {outcome} to the caller", case)
                else:
                    acc.hit(kind + "_cross_running")
            else:
                # owner loop: runs directly and synchronously
                want = {"co_value": ("value", ("v", tag)), "co_raise": ("ProbeError", tag), "plain_none": ("returned", None),
                        "plain_value": ("returned", 5), "plain_raise": ("ProbeError-sync", tag)}[kind]
                if outcome != want or len(execs) != 1:
                    acc.violation("C20/owner/direct-call", f"{kind} from the owner loop gave {outcome} ({len(execs)} executions), expected {want}", case)
                else:
                    acc.hit("owner_loop_calls")
        else:
            acc.hit("cross_stopping")
        acc.nontrivial((kind, caller, state, outcome[0], ny)) if caller == "other" else None
        acc.state((kind, caller, state, outcome[0]))


def judge_closed(acc, results, log_closed, dt):
    tags = {r[0] for r in results}
    for (tag, kind, ident, lp) in log_closed:
        if tag in tags:
            acc.violation("C20/closed/call-executed-after-close", f"{kind} (tag {tag}) executed although the owner loop was closed",
                          {"phase": "closed", "kind": kind})
    for (tag, kind, caller, state, outcome, ny) in results:
        acc.case()
        case = {"phase": "closed", "kind": kind, "outcome": repr(outcome)}
        if kind == "attr":
            if outcome != ("TypeError",):
                acc.violation("C20/attr/non-callable-not-refused", f"closed loop: attribute access ended with {outcome}", case)
            continue
        if outcome != ("returned", None):
            key = "C20/closed/call-blocked-or-raised" if outcome[0] in ("unresolved", "RuntimeError") else "C20/closed/call-not-dropped"
            acc.violation(key, f"{kind} on a closed owner loop gave {outcome}; it must be dropped (return nothing) without blocking", case)
        else:
            acc.hit("cross_closed")
            if kind.startswith("co_"):
                acc.hit("closed_coroutine_call")
        acc.nontrivial((kind, "other", "closed", outcome[0], ny))
        acc.state((kind, "other", "closed", outcome[0]))
    if dt > 20:
        acc.notes.append(f"closed-phase burst took {dt:.1f}s wall")


def replay(case) -> Acc:
    return run_shard({"seed": 0, "threads": 3, "rounds": 1, "burst": 100, "p": 0.1})
