"""C01 - the ASH link delivers payloads exactly once, in order, over a faulty serial line.

Real AshProtocol (host) <-> faulty FIFO line <-> RefNcpAsh (independent, specification-
conforming NCP endpoint with transmit window 1..3), on the virtual-time loop.  Uniquely
marked payloads are submitted on both sides by concurrent callers; some host callers are
cancelled.  The offline oracle compares submission logs with upper-layer delivery logs.
"""
from __future__ import annotations

import asyncio
import itertools
import random

from .. import ashref as R
from .. import vloop
from ..line import Line, HostTransport
from ..runner import Acc
from .. import logmode

PROPERTY = "C01"
LEVEL = "fault_enumeration"
RULE = (
    "A run = (fault vector over the first k frames crossing the line in either direction, each "
    "from {deliver, drop, detectable corruption, duplicate, stall 3.3 s}) x NCP window {1,2,3} x "
    "traffic pattern {host only, NCP only, both, burst of 4 concurrent host callers} x chunking "
    "{whole frames, byte-wise, reads coalescing everything that arrives within 2 ms; duplicates in a read of "
    "their own or in the same read}; all 5^k vectors are enumerated for the tier's k, then seeded "
    "random runs of hundreds of payloads each way at 5-30 % fault rate (frame numbers wrap "
    "dozens of times), then caller cancellations at enumerated wire-event indices crossed with "
    "depth-3 vectors.  Non-trivial = at least one fault was applied; distinct = distinct wire-trace "
    "signatures (direction, frame kind, frmNum, reTx, ackNum, fault applied)."
)
ASSUMPTIONS = [
    "rtmon.ashref.RefNcpAsh is a specification-conforming NCP endpoint (go-back-N, reject "
    "condition, piggy-backed and stand-alone ACKs, fixed retransmit timer)",
    "the line is FIFO per direction with bounded stall; reordering is never produced (3-bit "
    "numbering cannot survive it in any implementation)",
    "corruption is detectable: 1-2 bit flips before stuffing or one byte replaced by SUBSTITUTE",
    "liveness is not demanded here (C05 decides termination); a run ends at quiescence or host failure",
]
REACH = {
    t: ["host_retx_timeout", "host_retx_nak", "host_suppressed_duplicate", "host_sent_nak",
        "wrap_h2n", "wrap_n2h", "cancelled_but_delivered", "host_failed_run",
        "fault_drop_h2n", "fault_corrupt_h2n", "fault_dup_h2n", "fault_stall_h2n",
        "fault_drop_n2h", "fault_corrupt_n2h", "fault_dup_n2h", "fault_stall_n2h",
        "window_1", "window_2", "window_3", "send_raised", "reactive_send_from_upper_layer_callback",
        "reads_coalesced", "duplicate_in_one_read", "reset_in_mid_session", "old_session_frame_after_host_rst",
        "ncp_frames_acknowledged_by_a_host_that_gave_up"]  # (the full-stack soaks report their reach, but C01 does not depend on it)
    for t in ("quick", "thorough")
}
SHARD_TIMEOUT = {"quick": 900, "thorough": 3600}
FAULTS = ["ok", "drop", "corrupt", "dup", "stall"]


class Upper:
    def __init__(self, trace, clock):
        self.trace, self.clock = trace, clock
        self.on_up = None

    def connection_made(self, p):
        pass

    def connection_lost(self, exc):
        self.trace.append(("h_lost", self.clock(), repr(exc)))

    def eof_received(self):
        pass

    def data_received(self, data):
        self.trace.append(("h_up", self.clock(), bytes(data)))
        if self.on_up is not None:
            self.on_up(bytes(data))

    def reset_received(self, code):
        self.trace.append(("h_reset", self.clock(), int(code)))

    def error_received(self, code):
        self.trace.append(("h_reset", self.clock(), int(code)))


def payload(side: str, i: int, rnd: random.Random) -> bytes:
    n = rnd.choice([0, 1, 2, 5, 17, 60, 110, 129, 180])
    if rnd.random() < 0.3:
        fill = bytes(rnd.choice(R.RESERVED) for _ in range(n))
    else:
        fill = rnd.randbytes(n)
    return b"%s%05d" % (side.encode(), i) + fill


def run_case(case):
    import bellows.ash as ash

    trace: list = []
    info = {"hang": False, "ncp_stats": {}, "faults": {}}

    async def main(loop: vloop.VLoop):
        clock = loop.time
        rnd = random.Random(case.get("seed", 0))
        line = Line(loop, trace, vector=case.get("vector", ()), rate=case.get("rate", 0.0),
                    seed=case.get("seed", 0) + 17, chunking=case.get("chunking", "whole"))
        line.dup_in_one_read = bool(case.get("dup1"))
        for d_, v_ in (case.get("dir_vector") or {}).items():
            line.dir_vector[d_] = list(v_)
        up = Upper(trace, clock)
        proto = ash.AshProtocol(up)
        tr = HostTransport(line)
        tr.protocol = proto

        nh, nn = case.get("nh", 0), case.get("nn", 0)
        n_react_h, n_react_n = case.get("reactive", 0), case.get("ncp_reactive", 0)
        n_after = case.get("after_failure", 0)
        hp = [payload("H", i, rnd) for i in range(nh + n_react_h)]
        npl = [payload("N", i, rnd) for i in range(nn + n_react_n + n_after)]
        tasks = {}
        order = []      # host payload indices in the order send_data() was called
        n_order = []    # NCP payload indices in the order submit() was called
        nxt = {"h": nh, "n": nn}  # next index of the reactive pools

        def ncp_submit(i):
            trace.append(("n_submit", clock(), i))
            n_order.append(i)
            ncp.submit(npl[i])

        def ncp_up(p):
            trace.append(("n_up", clock(), bytes(p)))
            if nxt["n"] < nn + n_react_n:
                # the NCP answers an incoming payload with one of its own (a response / callback)
                i = nxt["n"]
                nxt["n"] += 1
                ncp_submit(i)

        ncp = R.RefNcpAsh(write=lambda b: line.send("n2h", b), call_later=loop.h_call_later,
                          window=case.get("window", 1), on_data=ncp_up, ack_delay=case.get("ack_delay", 0.0))
        line.sink["h2n"] = ncp.feed
        line.sink["n2h"] = proto.data_received
        proto.connection_made(tr)
        # fault-free handshake
        proto.send_reset()
        await asyncio.sleep(0.05)
        if not any(e[0] == "h_reset" for e in trace):
            trace.append(("harness_error", clock(), "no RSTACK during the fault-free handshake"))
            return
        line.armed = True

        async def do_send(i):
            trace.append(("h_call", clock(), i))
            order.append(i)
            try:
                await proto.send_data(hp[i])
            except asyncio.CancelledError:
                trace.append(("h_cancelled", clock(), i))
                raise
            except BaseException as e:  # noqa: BLE001
                trace.append(("h_exc", clock(), i, type(e).__name__))
            else:
                trace.append(("h_ret", clock(), i))

        def host_react(p):
            # the upper layer answers an incoming payload with a new send, from inside the callback
            if nxt["h"] < len(hp):
                i = nxt["h"]
                nxt["h"] += 1
                tasks[i] = asyncio.ensure_future(do_send(i))

        up.on_up = host_react

        burst = case.get("burst", 1)
        # cancellation requests: [send index, wire frame index, delay after that frame is emitted]
        cancels = [list(c) + [0.0] * (3 - len(c)) for c in case.get("cancel", [])]

        def do_cancel(i):
            if i in tasks and not tasks[i].done():
                trace.append(("h_cancel_req", clock(), i))
                tasks[i].cancel()

        def do_reset():
            # the host asks for a reset in mid-session (as Gateway.reset() does); whatever is still in
            # the pipe from the old session arrives between its RST and the RSTACK
            trace.append(("h_reset_request", clock()))
            if len(case["reset_at"]) > 2 and case["reset_at"][2] == "failed":
                # the reason for the reset: the host considers the link failed (an ERROR frame reached it)
                proto.data_received(R.encode_error(0x51))
            proto.send_reset()

        def on_frame(idx):
            for c in cancels:
                if c[1] == idx:
                    loop.io_at(clock() + c[2], do_cancel, c[0])
            if case.get("reset_at") is not None and idx == case["reset_at"][0]:
                loop.io_at(clock() + case["reset_at"][1], do_reset)

        line.on_frame = on_frame

        def failed():
            return any(e[0] == "h_reset" and e[2] != 0x0B for e in trace[-80:])

        # submission: host in bursts of `burst` concurrent callers, NCP interleaved
        hi = ni = 0
        gap = case.get("gap", 0.0)
        while hi < nh or ni < nn:
            for _ in range(burst):
                if hi < nh:
                    trace.append(("h_submit", clock(), hi))
                    tasks[hi] = asyncio.ensure_future(do_send(hi))
                    hi += 1
            for _ in range(case.get("nburst", 1)):
                if ni < nn:
                    ncp_submit(ni)
                    ni += 1
            # wait until this burst's host callers are finished (cancelled ones count)
            while any(not t.done() for t in tasks.values()):
                if failed():
                    break
                await asyncio.sleep(0.2)
            if gap:
                await asyncio.sleep(gap)
            if any(e[0] == "h_reset" and e[2] != 0x0B for e in trace):
                break
        # let both sides drain (reactive submissions included)
        t_end = clock() + 60
        while clock() < t_end and not ncp.failed and not any(e[0] == "h_reset" and e[2] != 0x0B for e in trace):
            if not (ncp.queue or ncp.unacked) and all(t.done() for t in tasks.values()):
                break
            await asyncio.sleep(0.5)
        await asyncio.sleep(8)
        if n_after and any(e[0] == "h_reset" and e[2] != 0x0B for e in trace) and not ncp.failed:
            # The host has given up on the link (a verdict of its own: the NCP is alive and well and goes on
            # using the line, which works again).  What the NCP sends now and sees acknowledged is still owed
            # to the host's upper layer.
            trace.append(("after_failure_phase", clock()))
            line.dir_vector = {"h2n": [], "n2h": []}
            for j in range(n_after):
                ncp_submit(nn + n_react_n + j)
                await asyncio.sleep(case.get("gap", 0.0) or 0.05)
            t_end = clock() + 40
            while clock() < t_end and not ncp.failed and (ncp.queue or ncp.unacked):
                await asyncio.sleep(0.5)
            await asyncio.sleep(4)
            info["after_failure_acked"] = sum(1 for p in ncp.acked_payloads if p in npl[nn + n_react_n:])
        for t_ in tasks.values():
            if not t_.done():
                t_.cancel()
        trace.append(("end", clock()))
        info["ncp_stats"] = dict(ncp.stats)
        info["ncp_acked"] = list(ncp.acked_payloads)
        info["wraps"] = (ncp.wraps_rx, ncp.wraps_tx)
        info["faults"] = line.faults_applied
        info["hp_all"] = hp
        # submission order = the order in which send_data() / submit() were actually called
        info["hp"] = [hp[i] for i in order]
        info["npl"] = [npl[i] for i in n_order]
        info["reactive_sends"] = sum(1 for i in order if i >= nh)

    try:
        vloop.run(main)
    except vloop.Deadlock:
        info["hang"] = True
    return trace, info


def is_subsequence_unique(delivered, submitted):
    """-> (ok, reason).  delivered must be duplicate-free and in submission order."""
    pos = {p: i for i, p in enumerate(submitted)}
    last = -1
    seen = set()
    for d in delivered:
        if d not in pos:
            return False, ("foreign", d)
        if d in seen:
            return False, ("duplicate", d)
        seen.add(d)
        if pos[d] < last:
            return False, ("reordered", d)
        last = pos[d]
    return True, None


def judge(case, trace, info):
    bad = []
    if any(e[0] == "harness_error" for e in trace):
        return [("HARNESS", "handshake failed")], {}
    hp, npl = info.get("hp", []), info.get("npl", [])
    hp_all = info.get("hp_all", hp)
    n_up = [e[2] for e in trace if e[0] == "n_up"]
    h_up = [e[2] for e in trace if e[0] == "h_up"]
    if case.get("reset_at") is not None:
        # Across a reset the two ends are for a while in different sessions (the NCP restarts at the
        # RST, the host at the RSTACK, and the line is FIFO so every old-session frame reaches the host
        # before the RSTACK): acknowledgements may then be attributed to the wrong session by ANY
        # implementation, so completion and loss are not judged here.  What the host can and must do
        # is keep its old numbering until the RSTACK arrives, so that an old-session retransmission of
        # a frame it already handed up is still recognised as a duplicate.
        seen = set()
        for p in h_up:
            if p in seen:
                bad.append(("C01/ncp-to-host/duplicate", f"host upper layer received payload {p[:6]!r} twice around a host-requested reset: "
                            f"{[q[:6] for q in h_up]}"))
                break
            seen.add(p)
        return bad, {"cancelled_delivered": 0, "raised": sum(1 for e in trace if e[0] == "h_exc"),
                     "host_failed": any(e[0] == "h_reset" and e[2] != 0x0B for e in trace)}
    ok, why = is_subsequence_unique(n_up, hp)
    if not ok:
        bad.append((f"C01/host-to-ncp/{why[0]}", f"NCP upper layer received {why[0]} payload {why[1][:6]!r}: "
                    f"delivered {[p[:6] for p in n_up]} vs submitted {[p[:6] for p in hp]}"))
    ok, why = is_subsequence_unique(h_up, npl)
    if not ok:
        bad.append((f"C01/ncp-to-host/{why[0]}", f"host upper layer received {why[0]} payload {why[1][:6]!r}: "
                    f"delivered {[p[:6] for p in h_up]} vs submitted {[p[:6] for p in npl]}"))
    # returned host sends: delivered exactly once, before the return
    n_up_at = {}
    for idx, e in enumerate(trace):
        if e[0] == "n_up":
            n_up_at.setdefault(e[2], []).append(idx)
    for idx, e in enumerate(trace):
        if e[0] == "h_ret":
            p = hp_all[e[2]]
            at = n_up_at.get(p, [])
            if len(at) != 1 or at[0] > idx:
                bad.append(("C01/host-to-ncp/completed-send-not-delivered-once",
                            f"send {e[2]} returned but its payload was delivered {len(at)}x"
                            + (" (after the return)" if at and at[0] > idx else "")))
    # NCP sends the reference saw acknowledged: in the host's list exactly once
    for p in info.get("ncp_acked", []):
        c = h_up.count(p)
        if c != 1:
            bad.append(("C01/ncp-to-host/acknowledged-frame-not-delivered-once",
                        f"NCP payload {p[:6]!r} was acknowledged by the host but handed up {c}x"))
    # bounded progress after the faults stop: with fewer faults than the attempt budget (none of
    # them random) and a clean line afterwards, no send may be lost - in particular not because
    # *another* caller was cancelled
    nfaults = sum(1 for v in case.get("vector", ()) if v != "ok")
    if not case.get("rate") and nfaults <= 3 and case.get("reset_at") is None and not case.get("dir_vector"):
        cancelled = {e[2] for e in trace if e[0] in ("h_cancel_req", "h_cancelled")}
        for i, p in enumerate(hp_all):
            if i in cancelled or p not in hp:
                continue
            ret = any(e[0] == "h_ret" and e[2] == i for e in trace)
            if not ret or n_up.count(p) != 1:
                why = "cancel" if cancelled else "faults"
                bad.append((f"C01/progress/payload-lost-after-{why}",
                            f"host payload {i} was {'not ' if not ret else ''}completed and delivered {n_up.count(p)}x although "
                            f"only {nfaults} frame(s) were faulted and the line was clean afterwards"
                            + (f" (caller(s) {sorted(cancelled)} cancelled)" if cancelled else "")))
        for p in npl:
            if h_up.count(p) != 1:
                bad.append(("C01/progress/ncp-payload-lost", f"NCP payload {p[:6]!r} delivered {h_up.count(p)}x to the host"))
    facts = {
        "cancelled_delivered": sum(1 for e in trace if e[0] == "h_cancelled" and hp_all[e[2]] in n_up),
        "raised": sum(1 for e in trace if e[0] == "h_exc"),
        "host_failed": any(e[0] == "h_reset" and e[2] != 0x0B for e in trace),
    }
    return bad, facts


def wire_sig(trace):
    return tuple((e[2], e[3], e[4]) for e in trace if e[0] == "line")


def pretty(trace):
    out = []
    for e in trace:
        if e[0] == "line":
            out.append(f"{e[1] - 100:8.4f} {'host->ncp' if e[2] == 'h2n' else 'ncp->host'} {e[3]} [{e[4]}]")
        elif e[0] in ("n_up", "h_up"):
            out.append(f"{e[1] - 100:8.4f} {e[0]} {e[2][:6]!r}")
        else:
            out.append(f"{e[1] - 100:8.4f} {e[0]} {e[2:]}")
    return out


def run_one(acc: Acc, case):
    acc.case()
    trace, info = run_case(case)
    bad, facts = judge(case, trace, info)
    for key, msg in bad[:3]:
        acc.violation(key, msg[:1200], case, pretty(trace)[-60:])
    if info["hang"]:
        acc.ev("runs_ended_by_loop_run_dry")
    st = info.get("ncp_stats", {})
    lines = [e for e in trace if e[0] == "line"]
    # reach, from observed events
    h_data = [e for e in lines if e[2] == "h2n" and e[3] and e[3][0] == "D"]
    naks_to_host = [e for e in lines if e[2] == "n2h" and e[3] and e[3][0] == "N" and e[4] in ("ok", "dup", "stall")]
    for e in h_data:
        if e[3][2] == 1:
            prev_nak = any(n[1] <= e[1] and e[1] - n[1] < 0.01 for n in naks_to_host)
            acc.hit("host_retx_nak" if prev_nak else "host_retx_timeout")
    if st.get("rx_data_dup"):
        acc.ev("ncp_saw_duplicate", st["rx_data_dup"])
    # host suppressed a duplicate: NCP DATA delivered to the host more often than handed up
    n_data_ok = {}
    for e in lines:
        if e[2] == "n2h" and e[3] and e[3][0] == "D" and e[4] in ("ok", "dup", "stall"):
            n_data_ok[e[3][1:2] + (e[1],)] = 1
    h_up = [e for e in trace if e[0] == "h_up"]
    n_d = sum(2 if e[4] == "dup" else 1 for e in lines if e[2] == "n2h" and e[3] and e[3][0] == "D" and e[4] in ("ok", "dup", "stall"))
    if n_d > len(h_up):
        acc.hit("host_suppressed_duplicate")
    if any(e[2] == "h2n" and e[3] and e[3][0] == "N" for e in lines):
        acc.hit("host_sent_nak")
    w = info.get("wraps", (0, 0))
    if w[0]:
        acc.hit("wrap_h2n", w[0])
    if w[1]:
        acc.hit("wrap_n2h", w[1])
    if facts.get("cancelled_delivered"):
        acc.hit("cancelled_but_delivered")
    if facts.get("host_failed"):
        acc.hit("host_failed_run")
    if info.get("after_failure_acked"):
        acc.hit("ncp_frames_acknowledged_by_a_host_that_gave_up", info["after_failure_acked"])
    if facts.get("raised"):
        acc.hit("send_raised")
    for d, fs in info.get("faults", {}).items():
        for f, n in fs.items():
            acc.hit(f"fault_{f}_{d}", n)
    acc.hit("window_%d" % case.get("window", 1))
    if case.get("chunking") == "coalesce":
        acc.hit("reads_coalesced")
    t_rr = next((e[1] for e in trace if e[0] == "h_reset_request"), None)
    if t_rr is not None:
        acc.hit("reset_in_mid_session")
        t_ack = next((e[1] for e in trace if e[0] == "h_reset" and e[1] >= t_rr), None)
        if t_ack is not None and any(e[0] == "line" and e[2] == "n2h" and e[3] and e[3][0] == "D" and e[1] < t_rr for e in trace) and \
                t_ack - t_rr > 0.01:
            acc.hit("old_session_frame_after_host_rst")
    if case.get("dup1") and any(e[4] == "dup" for e in lines):
        acc.hit("duplicate_in_one_read")
    if info.get("reactive_sends"):
        acc.hit("reactive_send_from_upper_layer_callback", info["reactive_sends"])
    if any(e[4] != "ok" for e in lines):
        acc.nontrivial(wire_sig(trace))
    acc.ev("frames_on_line", len(lines))
    acc.ev("payloads_to_ncp", sum(1 for e in trace if e[0] == "n_up"))
    acc.ev("payloads_to_host", len(h_up))
    return trace, bad


TRAFFIC = {
    "reactive": dict(nh=2, nn=1, burst=2, nburst=1, reactive=3, ncp_reactive=3, ack_delay=0.02),
    "host": dict(nh=3, nn=0, burst=1),
    "ncp": dict(nh=0, nn=3, nburst=3),
    "both": dict(nh=3, nn=3, burst=1, nburst=1),
    "burst4": dict(nh=4, nn=2, burst=4, nburst=2),
}


def gen_cases(tier, seed):
    cases = []
    k = 5 if tier == "quick" else 6
    chunkings = ["whole", "byte"]
    for vec in itertools.product(FAULTS, repeat=k):
        if all(v == "ok" for v in vec):
            continue
        for w in (1, 2, 3):
            for tname, tp in TRAFFIC.items():
                if tier == "quick":
                    # byte-wise chunking on a rotating quarter of the vectors
                    chs = chunkings if (sum((i + 1) * FAULTS.index(v) for i, v in enumerate(vec)) + w) % 4 == 0 else ["whole"]
                else:
                    chs = chunkings if (sum((i + 1) * FAULTS.index(v) for i, v in enumerate(vec)) + w) % 2 == 0 else ["whole"]
                h_ = sum((i + 2) * FAULTS.index(v) for i, v in enumerate(vec)) + w
                for ch in chs:
                    cases.append(dict(tp, vector=list(vec), window=w, chunking=ch, seed=seed, traffic=tname,
                                      dup1=(h_ % 2 == 0)))
                if h_ % (6 if tier == "quick" else 3) == 1:
                    # reads that coalesce everything arriving within 2 ms (several frames per read)
                    cases.append(dict(tp, vector=list(vec), window=w, chunking="coalesce", seed=seed, traffic=tname, dup1=True))
    # cancellation points x depth-3 vectors
    kc = 3
    for vec in itertools.product(FAULTS, repeat=kc):
        for at in range(0, 6 if tier == "quick" else 9):
            for who in (0, 1, 2):
                for delay in (0.0, 0.5, 1.7):
                    for nn in (0, 2):
                        cases.append(dict(nh=4, nn=nn, burst=4, nburst=2, vector=list(vec), window=2,
                                          chunking="coalesce" if (at + who) % 4 == 3 else "whole", dup1=bool(at % 2),
                                          seed=seed, cancel=[[who, at, delay]], traffic="cancel"))
    # a host-requested reset in mid-session (NCP traffic only before it, both ways after it): the
    # old session's leftovers must not be handed up again
    for vec in itertools.product(FAULTS, repeat=4):
        hv = sum((i + 1) * FAULTS.index(v) for i, v in enumerate(vec))
        if tier == "quick" and hv % 2:
            continue
        for at in range(1, 6):
            for delay in (0.0, 0.5, 1.7, 2.6):
                cases.append(dict(nh=0, nn=2, nburst=1, reactive=2, ncp_reactive=1, vector=list(vec), window=1 + (at + hv) % 2,
                                  chunking="whole", seed=seed, reset_at=[at, delay, "failed" if (at + hv // 2) % 2 else "healthy"],
                                  traffic="midreset", gap=0.3))
    # one direction goes dark for a while: the host runs out of attempts and gives up although the NCP is alive
    # (every acknowledgement lost; or every host frame lost / corrupted, so that the NCP answers with NAKs);
    # then the line works again and the NCP goes on sending
    import bellows.ash as ash_

    maxa = int(ash_.ACK_TIMEOUTS)
    for dv in ({"n2h": ["drop"] * maxa}, {"h2n": ["drop"] * maxa}, {"h2n": ["corrupt"] * maxa},
               {"n2h": ["corrupt"] * maxa}, {"n2h": ["drop", "corrupt"] * maxa}, {"h2n": ["drop", "corrupt", "drop"] * maxa},
               {"n2h": ["drop"] * (maxa + 2)}, {"h2n": ["corrupt"] * (maxa - 1) + ["drop"] * 3}):
        for w in (1, 2, 3):
            for nn_ in (0, 2):
                for ch in ("whole", "byte", "coalesce"):
                    for n_after in (1, 3, 9):
                        cases.append(dict(nh=2, nn=nn_, burst=2, nburst=1, dir_vector=dv, window=w, chunking=ch, seed=seed,
                                          after_failure=n_after, traffic="blackout", dup1=False, gap=0.3 if n_after == 3 else 0.0))
    # long random runs
    rnd = random.Random(seed)
    nlong = 48 if tier == "quick" else 320
    for i in range(nlong):
        cases.append(dict(nh=rnd.choice([60, 120]) if tier == "quick" else rnd.choice([150, 300]),
                          nn=rnd.choice([60, 120]) if tier == "quick" else rnd.choice([150, 300]),
                          burst=rnd.choice([1, 2, 4]), nburst=rnd.choice([1, 2, 3]),
                          rate=rnd.choice([0.05, 0.1, 0.2, 0.3]), window=1 + i % 3,
                          chunking=rnd.choice(["whole", "whole", "byte", "split2", "coalesce"]), dup1=bool(i % 2),
                          ack_delay=rnd.choice([0.0, 0.02]), seed=seed * 1000 + i, traffic="long",
                          cancel=[[rnd.randrange(60), rnd.randrange(400), rnd.choice([0.0, 0.3, 1.0])]
                                  for _ in range(6)]))
    return cases


def shards(tier, seed):
    from .. import fullstack

    n = 64 if tier == "quick" else 192
    return [{"tier": tier, "seed": seed, "k": k, "n": n} for k in range(n)] + fullstack.shard_descs(tier, seed)


def run_shard(desc) -> Acc:
    import logging

    logmode.apply(desc)
    acc = Acc()
    from ..contracts import install_ash_contracts

    install_ash_contracts(acc)
    if desc.get("part") == "fullstack":
        # the same exactly-once rules one layer up: EZSP frames between the real application stack and the NCP
        # model, carried by this ASH implementation over the faulty line (rtmon/fullstack.py)
        from .. import fullstack

        return fullstack.run_shard_part(acc, PROPERTY, desc)
    cases = gen_cases(desc["tier"], desc["seed"])
    # long runs first in every shard so that no shard ends with a long tail
    idx = [i for i in range(len(cases)) if i % desc["n"] == desc["k"]]
    idx.sort(key=lambda i: cases[i].get("traffic") != "long")
    for i in idx:
        trace, bad = run_one(acc, cases[i])
        if len(acc.samples) < 2 and cases[i].get("traffic") in ("both", "cancel"):
            acc.sample({"case": cases[i], "trace": pretty(trace)[:40]})
    return acc


def replay(case) -> Acc:
    acc = Acc()
    trace, bad = run_one(acc, case)
    print("\n".join(pretty(trace)[-200:]))
    return acc
