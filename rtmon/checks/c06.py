"""C06 - each EZSP command gets its own response; one in flight; keep-alives go first.

Real EZSP + real version handler in frame mode on the virtual-time loop.  Concurrent callers
of three priority classes issue commands whose replies carry unique values; the NCP side
follows a per-call script (reply now / delayed / after the timeout / never / twice / callback
before or after / under a foreign sequence number / link-level send failure) and callers are
cancelled while queued, sending or waiting.  The oracle is an offline checker over the history
recorded at the client boundary, the gateway boundary and the registered callbacks.
"""
from __future__ import annotations

from ..excfam import family

import asyncio
import itertools
import logging
import random

from .. import ezspref as X
from .. import vloop, ncpsim, valuegen
from ..runner import Acc
from .. import logmode
from ..contracts import install_status_contract

PROPERTY = "C06"
LEVEL = "exploration"
RULE = (
    "A run = a set of concurrent callers, each (priority class, command, start offset, NCP behaviour "
    "for its request, optional cancellation phase).  Exhaustive part: 3 simultaneous callers x 3 "
    "classes each x 9 NCP behaviours each, per protocol version; random part: 2..6 callers with "
    "random offsets, behaviours and cancellation phases; wrap part: 3 workers issuing 600 commands. "
    "Non-trivial = at least two callers overlapped (one had to queue) or a fault behaviour was "
    "scripted; distinct = distinct event-order signatures (call / send / frame / outcome sequence "
    "with classes and behaviours, without values)."
)
ASSUMPTIONS = [
    "frame-mode stack built through the public bring-up path; the stub gateway runs in the caller's "
    "task (as bellows.uart.Gateway does without a thread), which is how requests are attributed to calls",
    "callback-type frames are sent under the sequence number of the last completed command (as NCPs "
    "do); a frame under the sequence number of a request that already ended (late reply, or a callback "
    "reusing it) answers no pending call and must reach the callbacks like any unsolicited frame",
    "EZSP_CMD_TIMEOUT is read from the tree",
]
REACH = {t: ["beh_now", "beh_delay", "beh_late", "beh_never", "beh_twice", "beh_cb_before", "beh_cb_after",
             "beh_foreign", "beh_sendfail", "beh_twice_now", "cancel_queued", "cancel_sending", "cancel_waiting", "cancel_handover", "cancelled_send_went_out_all_the_same",
             "three_classes_queued", "sequence_wrap", "unsolicited_to_two_callbacks", "priority_overtake", "commands_in_second_session",
             "timeout_observed", "probe_ok"] for t in ("quick", "thorough")}
SHARD_TIMEOUT = {"quick": 900, "thorough": 3600}

CLASSES = {
    "HIGH": ["nop", "readCounters", "readAndClearCounters"],
    "NORMAL": ["getEui64", "getNodeId", "networkState"],
    "LOW": ["sendUnicast", "sendMulticast", "sendBroadcast"],
}
# further members of the classes, used in the seeded part where the version has them: the route /
# extended-timeout set-up of a packet send belongs to the packet-send class; commands whose frame ID
# means something else in another protocol version are ordinary commands like any other
EXTRA = {
    "HIGH": [],
    "NORMAL": ["setSourceRouteDiscoveryMode", "getConfigurationValue", "getNetworkParameters", "getCurrentSecurityState"],
    "LOW": ["setSourceRoute", "setExtendedTimeout"],
}
RANK = {"HIGH": 2, "NORMAL": 1, "LOW": 0}
BEHAVIOURS = ["now", "delay", "late", "never", "twice", "cb_before", "cb_after", "foreign", "sendfail"]
SEND_LATENCY = 0.2


class LinkDown(Exception):
    pass


def run_case(case, V, acc=None):
    import bellows.ezsp as e
    import bellows.ezsp.protocol as proto_mod

    tr: list = []
    info = {"hang": False, "timeout": float(proto_mod.EZSP_CMD_TIMEOUT)}

    async def main(loop):
        clock = loop.time
        st = await ncpsim.started(loop, V, acc if acc is not None else Acc(), "C06")
        ez = st.ezsp
        C = e.EZSP._BY_VERSION[V].COMMANDS
        BY_ID = {cid: name for name, (cid, _, _) in C.items()}
        rnd = random.Random(case.get("seed", 0))
        callers = case["callers"]
        task_of = {}
        call_of_task = {}
        specs = {}
        last_done_seq = [None]
        cb_name = "stackStatusHandler" if "stackStatusHandler" in C else sorted(n for n in C if n.endswith("Handler"))[0]

        def deliver(frame, tag, seq, cid, values):
            tr.append(("frame", clock(), tag, seq, cid, values))
            ez.frame_received(frame)
            # "handover" cancellations: a caller still queued is cancelled 0..3 loop iterations after a frame was
            # processed - i.e. around the instant the command ahead of it ends and the slot changes hands
            for i_, sp_ in specs.items():
                if sp_.get("cancel") == "handover" and sp_.get("called") and "seq" not in sp_ and not sp_.get("armed"):
                    sp_["armed"] = True
                    hop(sp_.get("hops", 1), i_)

        def hop(k, i):
            if k <= 0:
                do_cancel(i)
            else:
                loop.call_soon(hop, k - 1, i)

        class Ncp:
            def on_request(self, data, i=None):
                seq, cid, body = X.parse_request(V, data)
                i = current[0] if i is None else i
                sp = specs[i]
                name = sp["name"]
                beh = sp["beh"]
                vals = sp["rx"]
                reply = st.ncp.encode(name, vals, seq)
                now = clock()

                def cbframe(delay):
                    cseq = last_done_seq[0] if last_done_seq[0] is not None else (seq + 128) % 256
                    cvals, _ = valuegen.gen_schema(C[cb_name][2], rnd, "random")
                    fr = st.ncp.encode(cb_name, cvals, cseq, callback=True)
                    loop.io_at(now + delay, deliver, fr, ("cb", i), cseq, C[cb_name][0], cvals)

                if beh == "now":
                    loop.io_at(now, deliver, reply, ("reply", i), seq, cid, vals)
                elif beh == "delay":
                    loop.io_at(now + 0.5, deliver, reply, ("reply", i), seq, cid, vals)
                elif beh == "late":
                    loop.io_at(now + info["timeout"] + 1.0, deliver, reply, ("late", i), seq, cid, vals)
                elif beh == "never":
                    pass
                elif beh == "twice":
                    loop.io_at(now, deliver, reply, ("reply", i), seq, cid, vals)
                    loop.io_at(now + 0.1, deliver, reply, ("dup", i), seq, cid, vals)
                elif beh == "twice_now":
                    # the copy comes right behind the original - processed in the same loop iteration, before the
                    # task that awaits the reply has run again
                    loop.io_at(now, deliver, reply, ("reply", i), seq, cid, vals)
                    loop.io_at(now, deliver, reply, ("dup", i), seq, cid, vals)
                elif beh == "cb_before":
                    cbframe(0.0)
                    loop.io_at(now + 0.05, deliver, reply, ("reply", i), seq, cid, vals)
                elif beh == "cb_after":
                    loop.io_at(now, deliver, reply, ("reply", i), seq, cid, vals)
                    cbframe(0.05)
                elif beh == "foreign":
                    fs = (seq + 37) % 256
                    fr = st.ncp.encode(name, vals, fs)
                    loop.io_at(now, deliver, fr, ("foreign", i), fs, cid, vals)

        ncp = Ncp()
        current = [None]
        real_send = st.gw.send_data
        if case.get("restart"):
            # the same commands were already used on this EZSP object before the NCP was restarted (stop,
            # start-up reset, version negotiated anew): what is judged below runs on the
            # protocol handler of the second session
            for c_ in callers:
                try:
                    txv_, _ = valuegen.gen_schema(C[c_["name"]][1], rnd, "random")
                    await asyncio.wait_for(e.EZSP.__getattr__(ez, c_["name"])(*txv_), 30)
                except BaseException:  # noqa: BLE001 - the warm-up is not judged
                    pass
            try:
                ez.stop_ezsp()
                await ez.startup_reset()
                tr.append(("restarted", clock()))
            except BaseException as ex:  # noqa: BLE001
                import traceback
                tr.append(("setup_fail", clock(), repr(ex) + " @ " + " <- ".join(f"{f.name}:{f.lineno}" for f in traceback.extract_tb(ex.__traceback__)[-5:])))

        async def send_data(data):
            tk = asyncio.current_task()
            i = call_of_task.get(tk)
            seq, cid, _ = X.parse_request(V, bytes(data))
            tr.append(("send_begin", clock(), i, seq, cid))
            if i is not None:
                specs[i]["seq"] = seq
                sp = specs[i]
                if sp.get("cancel") == "sending":
                    loop.io_at(clock() + SEND_LATENCY / 2, do_cancel, i)
            try:
                await asyncio.sleep(SEND_LATENCY)  # the ASH layer takes time to get the frame acknowledged
                if i is not None and specs[i]["beh"] == "sendfail":
                    raise LinkDown("link-level send failure")
            except BaseException as ex:
                tr.append(("send_fail", clock(), i, family(ex)))
                if isinstance(ex, asyncio.CancelledError) and i is not None and specs[i].get("frame_goes_out"):
                    # the link layer's send is shielded from its caller: the frame goes out all the same, the NCP
                    # executes the command and answers under a sequence number nobody waits for any more
                    tr.append(("send_end", clock(), i))
                    loop.io_at(clock() + SEND_LATENCY / 2, ncp.on_request, bytes(data), i)
                raise
            tr.append(("send_end", clock(), i))
            if i is not None and specs[i].get("cancel") == "waiting":
                loop.io_at(clock() + 0.1, do_cancel, i)
            current[0] = i
            if i is None:
                # probe: answered at once
                name = BY_ID[cid]
                fr = st.ncp.encode(name, st.ncp.zero_reply(name), seq)
                loop.io_at(clock(), deliver, fr, ("probe",), seq, cid, None)
            else:
                ncp.on_request(bytes(data))

        st.gw.send_data = send_data

        def do_cancel(i):
            tk = task_of.get(i)
            if tk is not None and not tk.done():
                tr.append(("cancel_req", clock(), i))
                tk.cancel()

        cbrec = [[], []]
        for k in range(2):
            ez.add_callback(lambda name, args, k=k: tr.append(("cb", clock(), k, name, args)))

        async def caller(i, sp):
            if sp["offset"]:
                await asyncio.sleep(sp["offset"])
            tr.append(("call", clock(), i, sp["name"], sp["cls"]))
            sp["called"] = True
            if sp.get("cancel") == "queued":
                loop.io_at(clock() + 0.01, do_cancel, i)
            try:
                fn = e.EZSP.__getattr__(ez, sp["name"])
                res = await fn(*sp["tx"])
            except asyncio.CancelledError:
                tr.append(("cancelled", clock(), i))
                raise
            except BaseException as ex:  # noqa: BLE001
                tr.append(("exc", clock(), i, family(ex)))
            else:
                tr.append(("ret", clock(), i, res))
                last_done_seq[0] = sp.get("seq")

        for i, c in enumerate(callers):
            name = c["name"]
            txv, _ = valuegen.gen_schema(C[name][1], rnd, "random")
            rxv, _ = valuegen.gen_schema(C[name][2], rnd, "random")
            specs[i] = dict(c, tx=txv, rx=list(rxv), i=i)
        for i in range(len(callers)):
            tk = asyncio.ensure_future(caller(i, specs[i]))
            task_of[i] = tk
            call_of_task[tk] = i
        await asyncio.wait(list(task_of.values()))
        await asyncio.sleep(info["timeout"] + 3)
        # probe: a fresh command must complete (no leaked slot)
        tr.append(("probe_call", clock()))
        try:
            await ez.getEui64()
            tr.append(("probe_ok", clock()))
        except BaseException as ex:  # noqa: BLE001
            tr.append(("probe_fail", clock(), repr(ex)))
        tr.append(("end", clock()))

    try:
        vloop.run(main)
    except vloop.Deadlock:
        info["hang"] = True
    except ncpsim.BringUpFailed:
        info["bringup_failed"] = True
    return tr, info


def check_history(case, tr, info):
    bad = []
    facts = set()
    T = info["timeout"]
    calls = {}
    order = 0
    arrival = {}
    for idx, ev in enumerate(tr):
        k = ev[0]
        if k == "call":
            calls[ev[2]] = {"call": idx, "t_call": ev[1], "name": ev[3], "cls": ev[4], "sb": None, "se": None,
                            "sf": None, "end": None, "outcome": None, "seq": None, "cid": None}
            arrival[ev[2]] = order
            order += 1
        elif k == "send_begin" and ev[2] is not None:
            c = calls[ev[2]]
            c["sb"], c["seq"], c["cid"], c["t_sb"] = idx, ev[3], ev[4], ev[1]
        elif k == "send_end" and ev[2] is not None:
            calls[ev[2]]["se"], calls[ev[2]]["t_se"] = idx, ev[1]
        elif k == "send_fail" and ev[2] is not None:
            calls[ev[2]]["sf"] = ev[3]
        elif k == "cancel_req":
            calls[ev[2]].setdefault("creq", idx)
        elif k in ("ret", "exc", "cancelled"):
            c = calls[ev[2]]
            c["end"], c["t_end"] = idx, ev[1]
            c["outcome"] = ev
    if info["hang"]:
        bad.append(("C06/hang", "the loop ran dry with a call pending"))
    # R6 sequence numbers
    sbs = [ev for ev in tr if ev[0] == "send_begin"]
    for a, b in zip(sbs, sbs[1:]):
        if b[3] != (a[3] + 1) % 256:
            bad.append(("C06/sequence/not-consecutive", f"request sequence {b[3]} follows {a[3]}"))
            break
        if b[3] == 0 and a[3] == 255:
            facts.add("sequence_wrap")
    # R4 one in flight
    for i, c in calls.items():
        if c["sb"] is None:
            continue
        for j, o in calls.items():
            if j == i or o["sb"] is None:
                continue
            if o["sb"] < c["sb"] and (o["end"] is None or o["end"] > c["sb"]):
                bad.append(("C06/exclusion/two-commands-in-flight",
                            f"call {i} ({c['name']}) sent its request while call {j} ({o['name']}) was still between its "
                            f"own request and its termination"))
    # R5 priority order
    for i, c in calls.items():
        if c["sb"] is None:
            continue
        rel = [o["end"] for j, o in calls.items() if j != i and o["sb"] is not None and o["end"] is not None and o["end"] < c["sb"]]
        if not rel:
            continue
        release = max(rel)
        if c["call"] > release:
            continue  # arrived after the slot was freed: did not queue behind the contenders
        waiting = [j for j, o in calls.items() if j != i and o["call"] < release and
                   (o["sb"] is None or o["sb"] > release) and (o["end"] is None or o["end"] > release)
                   and not (o.get("creq") is not None and o["creq"] < c["sb"])]
        # i must not have been overtaken... i.e. nobody still waiting outranks i
        for j in waiting:
            o = calls[j]
            if (RANK[o["cls"]], -arrival[j]) > (RANK[c["cls"]], -arrival[i]):
                bad.append(("C06/priority/order-violated",
                            f"call {i} ({c['cls']} {c['name']}, arrival {arrival[i]}) was started while call {j} "
                            f"({o['cls']} {o['name']}, arrival {arrival[j]}) was already waiting"))
        if any(arrival[j] < arrival[i] for j in waiting):
            facts.add("priority_overtake")
        if len({calls[j]["cls"] for j in waiting} | {c["cls"]}) == 3:
            facts.add("three_classes_queued")
    # frames: who do they belong to
    frames = [(idx, ev) for idx, ev in enumerate(tr) if ev[0] == "frame"]
    consumed_by = {}
    for idx, ev in frames:
        _, t, tag, seq, cid, values = ev
        if tag == ("probe",):
            continue
        owner = None
        dead = False
        for i, c in calls.items():
            if c["seq"] == seq and c["sb"] is not None and c["sb"] < idx:
                if c["end"] is None or c["end"] > idx:
                    if i not in consumed_by.values():
                        owner = i
                else:
                    # request under this sequence already ended
                    if c["outcome"][0] != "ret":
                        dead = True
        cbs = []
        for ev2 in tr[idx + 1:]:
            if ev2[0] == "cb" and abs(ev2[1] - t) < 1e-9:
                cbs.append(ev2)
            elif ev2[0] == "frame":
                break
        if owner is not None:
            consumed_by[idx] = owner
            if cbs:
                pass  # not demanded either way
        else:
            if dead:
                facts.add("frame_under_dead_sequence")
            # unambiguously unsolicited: every registered callback exactly once
            name_ok = [c for c in cbs if c[4] == list(values)]
            per = {0: 0, 1: 0}
            for c in name_ok:
                per[c[2]] += 1
            if per != {0: 1, 1: 1} and dead and per == {0: 0, 1: 0}:
                bad.append(("C06/unsolicited/frame-under-ended-request-sequence-dropped",
                            f"frame {tag} under sequence {seq} arrived after the request with that sequence number had "
                            f"ended (timeout / cancellation / send failure): it answers no pending call, yet no registered "
                            f"callback received it"))
            elif per != {0: 1, 1: 1}:
                bad.append(("C06/unsolicited/not-delivered-exactly-once",
                            f"frame {tag} under sequence {seq} answers no pending call but the two registered callbacks "
                            f"were invoked {per} times with its values"))
            else:
                facts.add("unsolicited_to_two_callbacks")
    # R1 / R2 outcomes
    for i, c in calls.items():
        oc = c["outcome"]
        if oc is None:
            if not info["hang"]:
                bad.append(("C06/termination/never-ended", f"call {i} never terminated"))
            continue
        if oc[0] == "ret":
            mine = [ev for idx, ev in frames if ev[3] == c["seq"] and c["sb"] is not None and c["sb"] < idx < c["end"]]
            if not mine:
                bad.append(("C06/response/returned-without-own-response",
                            f"call {i} ({c['name']}, seq {c['seq']}) returned {oc[3]!r} but no frame under its sequence "
                            f"number arrived while it was pending"))
            elif list(oc[3]) != list(mine[0][5]):
                bad.append(("C06/response/foreign-payload",
                            f"call {i} ({c['name']}, seq {c['seq']}) returned {oc[3]!r}; the frame under its sequence "
                            f"carried {mine[0][5]!r}"))
        elif oc[0] == "exc":
            if c["sf"] is not None:
                continue  # the send itself failed: the call raised (which exception is not C06's business)
            if oc[3] != "TimeoutError":
                bad.append(("C06/outcome/unexpected-exception", f"call {i} raised {oc[3]}"))
                continue
            facts.add("timeout_observed")
            if c["se"] is None:
                bad.append(("C06/timeout/before-send", f"call {i} timed out before its request was sent"))
                continue
            if abs(oc[1] - (c["t_se"] + T)) > 1e-6:
                bad.append(("C06/timeout/wrong-instant",
                            f"call {i} timed out {oc[1] - c['t_se']:.4f}s after its request was sent, command timeout is {T}"))
            mine = [ev for idx, ev in frames if ev[3] == c["seq"] and ev[4] == c["cid"] and c["sb"] < idx < c["end"]
                    and ev[1] < oc[1] - 1e-6]
            if mine:
                bad.append(("C06/response/ignored", f"call {i} (seq {c['seq']}) timed out although its response arrived at "
                            f"+{mine[0][1] - c['t_se']:.3f}s"))
    # spurious callbacks
    for idx, ev in enumerate(tr):
        if ev[0] == "cb":
            if not any(f[0] == "frame" and abs(f[1] - ev[1]) < 1e-9 and f[5] is not None and list(f[5]) == ev[4] for f in tr[:idx]):
                bad.append(("C06/unsolicited/spurious-callback", f"callback {ev[3]} {ev[4]!r} has no originating frame"))
                break
    for ev in tr:
        if ev[0] == "setup_fail":
            bad.append(("C06/setup/restart-failed", f"restarting the NCP on the same EZSP object failed: {ev[2]}"))
        if ev[0] == "restarted":
            facts.add("commands_in_second_session")
    if any(ev[0] == "probe_fail" for ev in tr):
        bad.append(("C06/leak/probe-command-failed", f"a fresh command after quiescence failed: {[e for e in tr if e[0] == 'probe_fail']}"))
    elif any(ev[0] == "probe_ok" for ev in tr):
        facts.add("probe_ok")
    return bad, facts


def signature(tr, case):
    sig = []
    for ev in tr:
        if ev[0] in ("call",):
            sig.append(("c", ev[2], ev[4]))
        elif ev[0] == "send_begin":
            sig.append(("s", ev[2]))
        elif ev[0] == "frame":
            sig.append(("f", ev[2]))
        elif ev[0] in ("ret", "exc", "cancelled"):
            sig.append((ev[0][0], ev[2]))
    return (tuple(sig), tuple((c["cls"], c["beh"], c.get("cancel")) for c in case["callers"]))


def pretty(tr):
    out = []
    for ev in tr:
        s = " ".join(repr(x)[:70] for x in ev[2:])
        out.append(f"{ev[1] - 100:9.4f} {ev[0]} {s}")
    return out


def run_one(acc, case, V):
    acc.case()
    tr, info = run_case(case, V, acc)
    if info.get("bringup_failed"):
        return tr, [("setup", "")]
    bad, facts = check_history(case, tr, info)
    case2 = dict(case, version=V)
    for key, msg in bad[:3]:
        acc.violation(key, msg[:900], case2, pretty(tr)[-70:])
    for f in facts:
        acc.hit(f)
    for c in case["callers"]:
        acc.hit("beh_" + c["beh"])
    for ev in tr:
        if ev[0] == "cancelled":
            ph = case["callers"][ev[2]].get("cancel")
            if ph:
                acc.hit("cancel_" + ph)
            if ph == "sending" and any(e2[0] == "frame" and e2[2][0] in ("reply", "dup") and e2[2][1] == ev[2] for e2 in tr):
                acc.hit("cancelled_send_went_out_all_the_same")
        acc.ev(ev[0])
    overl = sum(1 for ev in tr if ev[0] == "send_begin" and ev[2] is not None) >= 2
    if overl or any(c["beh"] != "now" for c in case["callers"]):
        acc.nontrivial(signature(tr, case))
    return tr, bad


def gen_cases(tier, seed, V):
    cases = []
    clsn = list(CLASSES)
    rnd = random.Random(seed * 31 + V)
    import bellows.ezsp as e_

    cmds = e_.EZSP._BY_VERSION[V].COMMANDS
    # exhaustive: 3 simultaneous callers x classes x behaviours
    for cl in itertools.product(clsn, repeat=3):
        for bh in itertools.product(BEHAVIOURS, repeat=3):
            callers = [dict(cls=c, name=CLASSES[c][(i + len(b)) % 3], beh=b, offset=0.0) for i, (c, b) in enumerate(zip(cl, bh))]
            cases.append({"callers": callers, "seed": seed})
    n = 2500 if tier == "quick" else 40000
    for _ in range(n):
        k = rnd.randrange(2, 7)
        callers = []
        for i in range(k):
            c = rnd.choice(clsn)
            pool = CLASSES[c] + [x for x in EXTRA[c] if x in cmds]
            callers.append(dict(cls=c, name=rnd.choice(pool), beh=rnd.choice(BEHAVIOURS + ["now", "now", "delay", "twice_now"]),
                                offset=rnd.choice([0.0, 0.0, 0.0, 0.1, 0.25, 0.7, 5.0]),
                                cancel=rnd.choice([None, None, None, "queued", "sending", "waiting", "handover"]),
                                hops=rnd.randrange(0, 4), frame_goes_out=rnd.random() < 0.5))
        cases.append({"callers": callers, "seed": rnd.randrange(10 ** 6)})
        if _ % 12 == 0:
            cases[-1]["restart"] = True
    # the slot changes hands: A in flight, B queued behind it and cancelled 0..3 loop iterations after A's reply was
    # processed, C (and the probe at the end) must still be served
    for h in range(0, 4):
        for ca in clsn:
            for cb in clsn:
                for beh_a in ("now", "delay", "twice", "cb_after"):
                    callers = [dict(cls=ca, name=CLASSES[ca][0], beh=beh_a, offset=0.0),
                               dict(cls=cb, name=CLASSES[cb][1], beh="now", offset=0.0, cancel="handover", hops=h),
                               dict(cls=clsn[(h + 1) % 3], name=CLASSES[clsn[(h + 1) % 3]][2], beh="now", offset=0.0)]
                    cases.append({"callers": callers, "seed": seed + h})
    # a reply doubled within one loop iteration, alone and with other commands queued behind
    for ca in clsn:
        for k in (1, 2, 3):
            callers = [dict(cls=ca, name=CLASSES[ca][0], beh="twice_now", offset=0.0)] + \
                [dict(cls=clsn[(j + 1) % 3], name=CLASSES[clsn[(j + 1) % 3]][j % 3], beh=("now", "twice_now")[j % 2], offset=0.0) for j in range(k - 1)]
            cases.append({"callers": callers, "seed": seed + k})
    # sequence wrap: many commands through 3 classes
    for w in range(1 if tier == "quick" else 4):
        callers = []
        for i in range(300):
            c = clsn[i % 3]
            callers.append(dict(cls=c, name=CLASSES[c][(i // 3) % 3], beh=rnd.choice(["now", "now", "delay", "twice", "cb_after"]),
                                offset=0.02 * i))
        cases.append({"callers": callers, "seed": seed + w, "wrap": True})
    return cases


VERSIONS = (4, 8, 13)


def shards(tier, seed):
    out = []
    per = 6 if tier == "quick" else 16
    for V in VERSIONS:
        for k in range(per):
            out.append({"tier": tier, "seed": seed, "version": V, "k": k, "n": per})
    return out


def run_shard(desc) -> Acc:
    logmode.apply(desc)
    acc = Acc()
    install_status_contract(acc)
    V = desc["version"]
    cases = gen_cases(desc["tier"], desc["seed"], V)
    for i, case in enumerate(cases):
        if i % desc["n"] != desc["k"]:
            continue
        tr, bad = run_one(acc, case, V)
        if bad and bad[0][0] == "setup":
            break
        if len(acc.samples) < 2 and len(case["callers"]) <= 4 and any(c.get("cancel") for c in case["callers"]):
            acc.sample({"version": V, "case": case, "history": pretty(tr)[:45]})
    return acc


def replay(case) -> Acc:
    acc = Acc()
    V = case.pop("version", 8)
    tr, bad = run_one(acc, case, V)
    print("\n".join(pretty(tr)))
    return acc
