"""C02 - the ASH receiver decodes any byte stream like the reference decoder, any chunking.

Oracle: rtmon.ashref.RefDecoder fed the whole stream, against the real
AshProtocol.data_received fed the stream in chunks.  Compared: the sequence of upward events
(payloads, reset codes) and the sequence of (ACK|NAK, ackNum) written back.  Online: nothing
may raise out of data_received.  Separate workload: multi-megabyte flag-free garbage, with
the retained buffer and traced memory bounded, followed by a recovery frame.
"""
from __future__ import annotations

import itertools
import random
import tracemalloc

from .. import ashref as R
from ..ashharness import new_protocol, decode_writes
from ..runner import Acc
from .. import logmode

PROPERTY = "C02"
DEBUGLOG_EVERY = 0  # DEBUG-logging shards are listed explicitly in shards()
LEVEL = "exploration"
RULE = (
    "Cases are (byte stream, partition into read chunks) pairs.  Streams: (a) every string up to "
    "the tier's length over a 15-symbol reserved-byte-rich alphabet; (b) every sequence up to the "
    "tier's length over a macro alphabet of whole valid frames (DATA in/out of sequence, reTx, "
    "payloads holding every reserved byte, ACK, NAK, RST, RSTACK, ERROR), frame fragments and "
    "single control bytes; (c) seeded concatenations of valid frames with 1-4 inserted / deleted "
    "/ flipped bytes.  Chunkings: all 2^(n-1) for streams up to the tier bound, else whole, "
    "byte-wise and seeded random.  Streams stay below the receive-buffer bound.  A case is "
    "non-trivial when the reference produced at least one event (delivery, reset, ACK or NAK) or "
    "entered a control-byte branch; distinct = distinct stream bytes."
)
ASSUMPTIONS = [
    "rtmon.ashref.RefDecoder is a faithful reading of UG101 section 4 (framing) and the receive rule",
    "DATA fields of 0..256 bytes are accepted (latitude, see DESIGN 2.2); ACK/NAK frames carrying a "
    "data field are outside the claim and skipped (counted in skipped_unspecified)",
    "equivalence is claimed only while unterminated residue + chunk <= the receive-buffer bound",
]
REACH = {
    t: ["delivery", "nak", "cancel_discard", "sub_discard_ended", "xonxoff_inside_escape",
        "dangling_esc", "invalid_escape", "chunk_boundary_inside_escape", "reject_crc",
        "garbage_8MiB", "garbage_recovered", "overlong_run_ended_by_cancel", "overlong_run_ended_by_substitute", "reset_up", "all_chunkings"]
    for t in ("quick", "thorough")
}
SHARD_TIMEOUT = {"quick": 600, "thorough": 3000}

ALPHA = [0x7E, 0x7D, 0x11, 0x13, 0x18, 0x1A, 0x5E, 0x5D, 0x31, 0x33, 0x38, 0x3A, 0x00, 0x81, 0xC1]


def macro_symbols():
    resv = bytes(R.RESERVED)
    syms = [
        R.encode_data(0, 0, 0, b"ab"), R.encode_data(1, 0, 0, b"cd"), R.encode_data(1, 1, 3, b"e"),
        R.encode_data(0, 1, 0, b""), R.encode_data(2, 0, 0, b"zz"), R.encode_data(0, 0, 0, resv),
        R.encode_data(1, 0, 0, R.randomize(resv + resv)),  # randomised field = reserved bytes -> stuffed
        R.encode_ack(1), R.encode_nak(0), R.encode_rst(), R.encode_rstack(0x0B), R.encode_rstack(0x02),
        R.encode_error(0x51),
        # numeric boundaries: reset / error code 0x00, a data field of exactly 256 bytes (accepted) and
        # of 257 bytes (over the limit: rejected like any malformed frame, whatever its CRC says)
        R.encode_error(0x00), R.encode_rstack(0x00),
        R.encode_data(0, 0, 0, bytes(range(256))), R.encode_data(0, 0, 0, bytes(range(256)) + b"!"),
    ]
    f = R.encode_data(0, 0, 0, R.randomize(resv))
    frag = [f[:3], f[3:], f[:-1], R.wire(R.raw_data(0, 0, 0, b"q")[:-1] + b"\x00")]  # last = bad CRC
    ctl = [bytes([b]) for b in (0x7E, 0x7D, 0x11, 0x13, 0x18, 0x1A, 0x5E, 0x31)]
    return syms + frag + ctl


def shards(tier, seed):
    out = []
    if tier == "quick":
        la, lb, allchunk = 5, 3, 9
        for i in range(len(ALPHA)):
            out.append({"part": "a", "first": i, "len": la, "allchunk": 5, "seed": seed})
        nm = len(macro_symbols())
        for i in range(0, nm, 2):
            out.append({"part": "b", "first": [i, min(i + 2, nm)], "len": lb, "allchunk": allchunk, "seed": seed})
        for i in range(8):
            out.append({"part": "c", "n": 6000, "allchunk": 10, "seed": seed * 100 + i})
        for k in range(5):
            out.append({"part": "mem", "mib": 8, "kind": k, "seed": seed})
    else:
        for i in range(len(ALPHA)):
            for j in range(0, len(ALPHA), 5):
                out.append({"part": "a", "first": i, "second": [j, j + 5], "len": 6, "allchunk": 5, "seed": seed})
        nm = len(macro_symbols())
        for i in range(nm):
            out.append({"part": "b", "first": [i, i + 1], "len": 4, "allchunk": 12, "seed": seed})
        for i in range(32):
            out.append({"part": "c", "n": 30000, "allchunk": 11, "seed": seed * 100 + i})
        for k in range(5):
            out.append({"part": "mem", "mib": 64, "kind": k, "seed": seed})
    for d in out:
        d["debuglog"] = False
    # the receive path logs every read, so DEBUG logging multiplies the cost: it gets shards of its own,
    # smaller ones, instead of a share of the big ones
    nm = len(macro_symbols())
    for i in (0, 1, 5, 9):
        out.append({"part": "a", "first": i, "len": 4, "allchunk": 4, "seed": seed, "debuglog": True})
    for i in range(0, nm, 6):
        out.append({"part": "b", "first": [i, min(i + 6, nm)], "len": 2, "allchunk": 8, "seed": seed, "debuglog": True})
    for i in range(2):
        out.append({"part": "c", "n": 1200 if tier == "quick" else 6000, "allchunk": 8, "seed": seed * 100 + 50 + i, "debuglog": True})
    out.append({"part": "mem", "mib": 1, "kind": 0, "seed": seed, "debuglog": True})
    out.sort(key=lambda d: d["part"] != "mem")  # longest shards first
    return out


# ---------------------------------------------------------------------------------------
def ref_events(stream: bytes, start_rx=0):
    ref = R.RefDecoder(start_rx)
    ev = ref.feed(stream)
    ups = [e for e in ev if e[0].startswith("up")]
    # (kind, ackNum) of every answer; for a well-formed DATA frame that is not the next expected one the kind is
    # left open by the properties (one ACK or NAK with the right number): marked "ACK-or-NAK"
    txs = [("tx", "ACK-or-NAK", e[2]) if len(e) > 4 and e[4] == "open" else e[:3] for e in ev if e[0] == "tx"]
    return ups, txs, ref.stats


def real_events(chunks):
    proto, up, tr, log = new_protocol()
    for c in chunks:
        proto.data_received(bytes(c))
    dec = decode_writes(log)
    ups = [e for e in dec if e[0].startswith("up")]
    txs = [e[:3] if e[0] == "tx" else e for e in dec if e[0].startswith("tx")]
    return ups, txs


def chunkings(n: int, allchunk: int, rnd: random.Random, extra: int = 3):
    """Yield lists of cut positions (sorted, within 1..n-1)."""
    if n <= 1:
        yield ()
        return
    if n <= allchunk:
        for mask in range(1 << (n - 1)):
            yield tuple(i + 1 for i in range(n - 1) if mask >> i & 1)
        return
    yield ()
    yield tuple(range(1, n))
    for _ in range(extra):
        k = rnd.randrange(1, min(n, 8))
        yield tuple(sorted(rnd.sample(range(1, n), k)))


def split(stream: bytes, cuts):
    out, prev = [], 0
    for c in cuts:
        out.append(stream[prev:c])
        prev = c
    out.append(stream[prev:])
    return out


def escape_cut(stream: bytes, cuts) -> bool:
    return any(stream[c - 1] == R.ESC for c in cuts)


def _same_answers(got, want):
    return len(got) == len(want) and all(g == w or (w[1] == "ACK-or-NAK" and g[0] == "tx" and g[1] in ("ACK", "NAK") and g[2] == w[2])
                                         for g, w in zip(got, want))


def check_stream(acc: Acc, stream: bytes, allchunk: int, rnd, label):
    try:
        ups, txs, stats = ref_events(stream)
    except R.Unspecified:
        acc.skipped["acknak_with_data_field"] += 1
        return
    nontrivial = bool(ups or txs or stats)
    for k, v in stats.items():
        if k in ("cancel_discard", "sub_discard_ended", "xonxoff_inside_escape", "dangling_esc",
                 "invalid_escape", "reject_crc"):
            acc.hit(k, v)
    if any(u[0] == "up_data" for u in ups):
        acc.hit("delivery")
    if any(u[0] == "up_reset" for u in ups):
        acc.hit("reset_up")
    if any(x[1] == "NAK" for x in txs):
        acc.hit("nak")
    if len(stream) <= allchunk and len(stream) > 2:
        acc.hit("all_chunkings")
    for cuts in chunkings(len(stream), allchunk, rnd):
        acc.case()
        case = {"part": "stream", "label": label, "stream": stream.hex(), "cuts": list(cuts)}
        if cuts and escape_cut(stream, cuts):
            acc.hit("chunk_boundary_inside_escape")
        try:
            gups, gtxs = real_events(split(stream, cuts))
        except Exception as e:  # noqa: BLE001
            acc.violation("C02/raises", f"data_received raised {e!r}", case)
            return
        if gups != ups:
            bad_delivery = [g for g in gups if g not in ups]
            if bad_delivery and any(k.startswith(("reject_", "invalid_escape")) for k in stats):
                key = "C02/delivered-a-frame-the-reference-rejects"
            elif cuts and real_events([stream])[0] == ups:
                key = "C02/upward-events-depend-on-chunking"
            else:
                key = "C02/upward-events-differ"
            acc.violation(key, f"upward events {gups!r}, reference {ups!r}", case)
            return
        if len(gtxs) == len(txs):
            gtxs = [("tx", "ACK-or-NAK", g[2]) if w[1] == "ACK-or-NAK" and g[0] == "tx" and g[1] in ("ACK", "NAK") else g
                    for g, w in zip(gtxs, txs)]
        if gtxs != txs:
            key = "C02/ack-nak-differ"
            if cuts and _same_answers(real_events([stream])[1], txs):
                key = "C02/ack-nak-depend-on-chunking"
            acc.violation(key, f"written back {gtxs!r}, reference {txs!r}", case)
            return
    if nontrivial:
        acc.nontrivial(stream)


def part_a(desc) -> Acc:
    acc = Acc()
    rnd = random.Random(desc["seed"])
    L = desc["len"]
    first = ALPHA[desc["first"]]
    seconds = ALPHA if "second" not in desc else ALPHA[desc["second"][0]:desc["second"][1]]
    for n in range(1, L + 1):
        if n == 1:
            if "second" in desc and desc["second"][0] != 0:
                continue
            check_stream(acc, bytes([first]), desc["allchunk"], rnd, "a")
            continue
        for s in seconds:
            for tail in itertools.product(ALPHA, repeat=n - 2):
                check_stream(acc, bytes((first, s) + tail), desc["allchunk"], rnd, "a")
    acc.sample({"kind": "alphabet string", "example": bytes([first, 0x7D, 0x11, 0x5E, 0x7E])[:L].hex(),
                "alphabet": bytes(ALPHA).hex()})
    return acc


def part_b(desc) -> Acc:
    acc = Acc()
    rnd = random.Random(desc["seed"])
    syms = macro_symbols()
    lo, hi = desc["first"]
    for f in syms[lo:hi]:
        for n in range(1, desc["len"] + 1):
            for tail in itertools.product(syms, repeat=n - 1):
                if n >= 3 and sum(1 for x_ in (f,) + tail if len(x_) > 100) >= 1 and sum(len(x_) for x_ in (f,) + tail) > 300 and \
                        (len(f) <= 100 or n > 3):
                    continue  # the maximal-length frames appear first in a sequence, or in pairs
                stream = f + b"".join(tail)
                check_stream(acc, stream, desc["allchunk"], rnd, "b")
    acc.sample({"kind": "macro sequence", "example": (syms[lo] + syms[-3] + syms[7]).hex()})
    return acc


def mutate(rnd: random.Random) -> bytes:
    rx = 0
    parts = []
    for _ in range(rnd.randrange(1, 6)):
        r = rnd.random()
        plen = rnd.choice([0, 1, 2, 3, 5, 8, 20, 60, 60, 128, 129, 200, 256, 257, 300])
        payload = bytes(rnd.choice(list(R.RESERVED) + [0x00, 0x5E, 0xFF]) if rnd.random() < 0.4
                        else rnd.randrange(256) for _ in range(plen))
        if r < 0.5:
            parts.append(R.encode_data(rx, rnd.randrange(2), rnd.randrange(8), payload))
            rx = (rx + 1) % 8
        elif r < 0.65:
            parts.append(R.encode_data(rnd.randrange(8), rnd.randrange(2), rnd.randrange(8), payload))
        elif r < 0.75:
            parts.append(R.encode_ack(rnd.randrange(8)))
        elif r < 0.85:
            parts.append(R.encode_nak(rnd.randrange(8)))
        elif r < 0.92:
            parts.append(R.encode_rstack(rnd.choice([0x0B, 0x02, 0x00, 0x7E, 0x11, 0xFF])))
            rx = 0
        elif r < 0.97:
            parts.append(R.encode_error(rnd.choice([0x51, 0x52, 0x1A, 0x00, 0xFF])))
        else:
            parts.append(R.encode_rst())
    b = bytearray(b"".join(parts))
    for _ in range(rnd.randrange(1, 5)):
        op = rnd.randrange(4)
        if not b:
            break
        pos = rnd.randrange(len(b))
        if op == 0:
            b.insert(pos, rnd.choice(list(R.RESERVED) + [rnd.randrange(256)]))
        elif op == 1:
            del b[pos]
        elif op == 2:
            b[pos] ^= 1 << rnd.randrange(8)
        else:
            b[pos] = rnd.choice(list(R.RESERVED))
    return bytes(b[:900])


def part_c(desc) -> Acc:
    from ..contracts import install_ash_contracts

    acc = Acc()
    install_ash_contracts(acc)
    rnd = random.Random(desc["seed"])
    for i in range(desc["n"]):
        stream = mutate(rnd)
        check_stream(acc, stream, desc["allchunk"], rnd, "c")
        if i < 2:
            acc.sample({"kind": "mutated frames", "stream": stream.hex()[:160]})
    return acc


def part_mem(desc) -> Acc:
    import bellows.ash as ash

    acc = Acc()
    bound = int(getattr(ash, "MAX_BUFFER_SIZE", 1024))
    total = desc["mib"] * 1024 * 1024
    rnd = random.Random(desc["seed"])
    kinds = {
        "random_flagfree": lambda n: bytes(b if b not in (R.FLAG, R.CAN, R.SUB) else 0x55 for b in rnd.randbytes(n)),
        "all_esc": lambda n: bytes([R.ESC]) * n,
        "all_xon": lambda n: bytes([R.XON]) * n,
        "mixed": lambda n: (bytes([R.ESC, R.XON, 0x00, R.XOFF, 0x5E, 0x41]) * (n // 6 + 1))[:n],
        "plain": lambda n: bytes([0x41]) * n,
    }
    small = {1: 15_000, 7: 50_000}
    per = (total // len(kinds) - sum(small.values())) // 2 + 1
    for kname, gen in list(kinds.items())[desc["kind"]:desc["kind"] + 1]:
        for chunk in (1, 7, 1024, 65536):
            proto, up, tr, log = new_protocol()
            case = {"part": "mem", "kind": kname, "chunk": chunk}
            amount = small.get(chunk, per)
            block = gen(max(chunk, 1))
            tracemalloc.start()
            base = tracemalloc.get_traced_memory()[0]
            fed = 0
            worst_buf = 0
            worst_mem = 0
            ok = True
            while fed < amount:
                try:
                    proto.data_received(block)
                except Exception as e:  # noqa: BLE001
                    acc.violation("C02/raises", f"garbage feed raised {e!r}", case)
                    ok = False
                    break
                fed += len(block)
                buf = getattr(proto, "_buffer", None)
                if buf is not None:
                    worst_buf = max(worst_buf, len(buf))
                if fed % (chunk * 64) < chunk or chunk >= 1024:
                    cur = tracemalloc.get_traced_memory()[0] - base
                    worst_mem = max(worst_mem, cur)
            tracemalloc.stop()
            acc.case()
            acc.ev("garbage_bytes", fed)
            if not ok:
                continue
            if worst_buf > bound:
                acc.violation("C02/memory/buffer-exceeds-bound",
                              f"retained buffer reached {worst_buf} bytes (> {bound}) on {kname} garbage", case)
            # the retained memory may not scale with the amount fed: allow the bound, one
            # chunk in flight and slack for the log of the harness itself
            allow = 64 * 1024 + 3 * chunk + bound
            if worst_mem > allow:
                acc.violation("C02/memory/unbounded",
                              f"traced memory grew by {worst_mem} bytes while feeding {fed} bytes of {kname} garbage "
                              f"in chunks of {chunk} (allowed {allow})", case)
            if [e for e in log if e[0].startswith("up")]:
                acc.violation("C02/memory/garbage-delivered", "flag-free garbage produced an upward event", case)
            # recovery: a FLAG ends the garbage "frame" (which is rejected), then a valid frame
            mark = len(log)
            proto.data_received(bytes([R.FLAG]) + R.encode_data(0, 0, 0, b"ok"))
            dec = decode_writes(log[mark:])
            if ("up_data", b"ok") not in dec:
                acc.violation("C02/memory/no-recovery", f"after garbage + FLAG a valid frame was not delivered: {dec!r}", case)
            else:
                acc.hit("garbage_recovered")
            # the over-long run may also be ended by the two other bytes that end a frame in progress:
            # CANCEL (what was collected is dropped) and SUBSTITUTE (everything up to the next FLAG is
            # dropped).  The valid frame that follows is a frame of its own in both cases.
            frm = 1
            for tname, term in (("cancel", bytes([R.CAN])), ("substitute", bytes([R.SUB]) + b"\x41\x42\x43" + bytes([R.FLAG])),
                                ("flag", bytes([R.FLAG])), ("cancel", bytes([R.CAN]))):
                for extra in (2 * bound + 50, 100):
                    noise = gen(extra)
                    step = min(max(chunk, 1), 1000)
                    for o in range(0, len(noise), step):
                        proto.data_received(noise[o:o + step])
                    mark = len(log)
                    pl = b"after-%s-%d" % (tname.encode(), extra)
                    proto.data_received(term + R.encode_data(frm, 0, 0, pl))
                    dec = decode_writes(log[mark:])
                    acc.case()
                    if ("up_data", pl) not in dec:
                        acc.violation("C02/memory/no-recovery-after-" + tname,
                                      f"{extra} bytes of {kname} garbage ended by {tname}, then a valid DATA frame {frm}: not delivered "
                                      f"({dec!r})", dict(case, terminator=tname, noise=extra))
                        break
                    acc.hit("overlong_run_ended_by_" + tname)
                    frm = (frm + 1) % 8
            acc.nontrivial(("mem", kname, chunk))
            acc.sample({"kind": "garbage", "pattern": kname, "chunk": chunk, "bytes_fed": fed,
                        "max_buffer": worst_buf, "max_traced_growth": worst_mem}, limit=4)
    return acc


def run_shard(desc) -> Acc:
    import logging

    logmode.apply(desc)
    acc = {"a": part_a, "b": part_b, "c": part_c, "mem": part_mem}[desc["part"]](desc)
    return acc


def post_merge(reach, tier, events=None):
    if events and events.get("garbage_bytes", 0) >= 8 * 1024 * 1024:
        reach["garbage_8MiB"] = events["garbage_bytes"] // (1024 * 1024)


def replay(case) -> Acc:
    acc = Acc()
    if case.get("part") == "stream":
        stream = bytes.fromhex(case["stream"])
        ups, txs, stats = ref_events(stream)
        print("reference: up", ups, "tx", txs, "stats", stats)
        gups, gtxs = real_events(split(stream, case["cuts"]))
        print("real     : up", gups, "tx", gtxs)
        if (gups, gtxs) != (ups, txs):
            acc.violation("C02/replay-differs", f"real {gups} {gtxs} vs reference {ups} {txs}", case)
    elif case.get("part") == "mem":
        return part_mem({"mib": 8, "seed": 0, "kind": ["random_flagfree", "all_esc", "all_xon", "mixed", "plain"].index(case["kind"])})
    return acc
