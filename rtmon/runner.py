"""Sharding, verdicts, evidence, replay files and the known-findings classifier.

A check module (rtmon/checks/cNN.py) provides

    PROPERTY, LEVEL, RULE, ASSUMPTIONS
    shards(tier, seed)      -> list of JSON-able shard descriptors
    run_shard(desc)         -> rtmon.runner.Acc  (use Acc helpers while running cases)
    REACH[tier]             -> list of reach-counter names that must be > 0
    replay(case)            -> runs one case verbosely (optional)

Every shard is executed in its own subprocess (fresh import of bellows from /repo's
working tree); up to N_WORKERS run in parallel.  Exit codes: 0 held, 1 violation,
2 inconclusive.
"""
from __future__ import annotations

import hashlib
import importlib
import json
import os
import subprocess
import sys
import time
import traceback
from collections import Counter
from pathlib import Path

ROOT = Path(__file__).resolve().parent.parent
EVIDENCE_DIR = Path(os.environ.get("VERIF_EVIDENCE_DIR") or ROOT / "evidence")
REPLAY_DIR = Path(os.environ.get("VERIF_REPLAY_DIR") or ROOT / "replays")
KNOWN_FILE = ROOT / "KNOWN_FINDINGS.json"
PY = "/venv/bin/python"
N_WORKERS = int(os.environ.get("VERIF_WORKERS", "16"))
MAX_SIGS_PER_SHARD = 60000
MAX_VIOLATIONS_PER_SHARD = 25


def h64(obj) -> int:
    """Stable 64-bit hash of a JSON-able / repr-able object."""
    if not isinstance(obj, (bytes, bytearray)):
        obj = repr(obj).encode()
    return int.from_bytes(hashlib.blake2b(obj, digest_size=8).digest(), "big")


_LIVE: list = []  # accumulators created in this process (a crashing shard still reports what it had found)


class Acc:
    """Accumulator a shard fills in while it runs its cases."""

    def __init__(self) -> None:
        _LIVE.append(self)
        self.evaluations = 0
        self.sigs: set[int] = set()
        self.sigs_dropped = 0
        self.events: Counter = Counter()
        self.reach: Counter = Counter()
        self.states: set = set()
        self.samples: list = []
        self.violations: list = []
        self.violation_count = 0
        self.contract_evals: Counter = Counter()
        self.notes: list[str] = []
        self.skipped: Counter = Counter()

    # -- recording --------------------------------------------------------------------
    def case(self, n: int = 1) -> None:
        self.evaluations += n

    def nontrivial(self, sig) -> None:
        """Register the signature of a non-trivial case (distinctness is by signature)."""
        if len(self.sigs) < MAX_SIGS_PER_SHARD:
            self.sigs.add(h64(sig))
        else:
            self.sigs_dropped += 1

    def ev(self, kind: str, n: int = 1) -> None:
        self.events[kind] += n

    def hit(self, name: str, n: int = 1) -> None:
        self.reach[name] += n

    def state(self, s) -> None:
        if len(self.states) < 5000:
            self.states.add(repr(s))

    def sample(self, s, limit: int = 3) -> None:
        if len(self.samples) < limit:
            self.samples.append(s)

    def violation(self, key: str, msg: str, case, history=None) -> None:
        """key = mechanism signature (used by the known-findings classifier)."""
        self.violation_count += 1
        if len(self.violations) < MAX_VIOLATIONS_PER_SHARD:
            self.violations.append(
                {"key": key, "msg": msg, "case": case, "history": history}
            )

    def to_json(self) -> dict:
        return {
            "evaluations": self.evaluations,
            "sigs": sorted(self.sigs),
            "sigs_dropped": self.sigs_dropped,
            "events": dict(self.events),
            "reach": dict(self.reach),
            "states": sorted(self.states),
            "samples": self.samples,
            "violations": self.violations,
            "violation_count": self.violation_count,
            "contract_evals": dict(self.contract_evals),
            "notes": self.notes,
            "skipped": dict(self.skipped),
        }


def jsonable(o):
    if isinstance(o, (bytes, bytearray)):
        return bytes(o).hex()
    if isinstance(o, (list, tuple)):
        return [jsonable(x) for x in o]
    if isinstance(o, dict):
        return {str(k): jsonable(v) for k, v in o.items()}
    if isinstance(o, (set, frozenset)):
        return sorted(jsonable(x) for x in o)
    if isinstance(o, (int, float, str, bool)) or o is None:
        return o
    return repr(o)


def load_check(pid: str):
    return importlib.import_module(f"rtmon.checks.{pid.lower()}")


# -- worker entry point -------------------------------------------------------------------
def worker_main(pid: str, shard_file: str, out_file: str) -> int:
    mod = load_check(pid)
    desc = json.loads(Path(shard_file).read_text())
    from . import logmode

    try:
        if isinstance(desc, dict) and "__coresident__" in desc:
            # several shards one after the other in ONE process: state kept at class / module level
            # by the code under test (caches, lazily filled tables) carries over from one to the next
            outs = []
            for d in desc["__coresident__"]:
                acc = mod.run_shard(d)
                acc.hit("coresident_shards")
                outs.append(acc.to_json())
            out = {"multi": outs}
        else:
            acc = mod.run_shard(desc)
            logmode.report(acc)
            out = acc.to_json()
    except BaseException:  # noqa: BLE001 - a crashed shard is inconclusive, say why
        out = {"crash": traceback.format_exc()}
        # ... but violations it had already recorded are not lost with it
        with_v = [a for a in _LIVE if a.violations]
        if with_v:
            out["partial"] = with_v[0].to_json()
    Path(out_file).write_text(json.dumps(jsonable(out)))
    return 0


# -- known findings -----------------------------------------------------------------------
def load_known():
    if not KNOWN_FILE.exists():
        return []
    return json.loads(KNOWN_FILE.read_text()).get("findings", [])


# -- driver -------------------------------------------------------------------------------
def _validate_evidence(ev: dict) -> str | None:
    try:
        import jsonschema  # available in /venv? fall back to a manual check
    except Exception:  # noqa: BLE001
        jsonschema = None
    schema_path = Path("/root/.vp/EVIDENCE.schema.json")
    if jsonschema is not None and schema_path.exists():
        try:
            jsonschema.validate(ev, json.loads(schema_path.read_text()))
        except Exception as e:  # noqa: BLE001
            return str(e)[:500]
        return None
    cov = ev.get("coverage", {})
    for k in ("evaluations", "distinct_nontrivial", "rule", "samples"):
        if k not in cov:
            return f"coverage.{k} missing"
    if cov["evaluations"] < 1 or cov["distinct_nontrivial"] < 2 or not cov["samples"]:
        return "coverage counts too small"
    return None


def run_check(pid: str, tier: str, seed: int) -> int:
    t0 = time.time()
    mod = load_check(pid)
    pid = mod.PROPERTY
    shards = mod.shards(tier, seed)
    # logging is a workload dimension (rtmon/logmode.py): every third shard that does not
    # choose for itself runs with DEBUG logging on and every record formatted
    every = getattr(mod, "DEBUGLOG_EVERY", 3)
    for i, d in enumerate(shards):
        if isinstance(d, dict) and "debuglog" not in d and every:
            d["debuglog"] = (i % every) == every - 1
            if every >= 3 and (i % every) == every - 2 and "loglevel" not in d:
                d["loglevel"] = "warning"  # the library's default level, records formatted
    # co-resident shards (see worker_main): pairs of shards of different protocol versions run in one
    # process, in both orders; a check may choose the pairs itself (CORESIDENT(shards) -> [[i, j], ...])
    pairs = []
    if hasattr(mod, "CORESIDENT"):
        pairs = mod.CORESIDENT(shards)
    else:
        byv = {}
        for i, d in enumerate(shards):
            if isinstance(d, dict) and isinstance(d.get("version"), int):
                byv.setdefault(d["version"], i)
        vs = sorted(byv)
        if len(vs) >= 2:
            cand = [(vs[-1], vs[-2]), (vs[-2], vs[-1]), (vs[0], vs[-1]), (vs[-1], vs[0])]
            seen = set()
            for a, b in cand:
                if (a, b) not in seen and a != b:
                    seen.add((a, b))
                    pairs.append([byv[a], byv[b]])
    n_plain = len(shards)
    for ij in pairs:
        shards.append({"__coresident__": [dict(shards[k], debuglog=False) for k in ij]})
    scratch = Path(os.environ.get("VERIF_SCRATCH", f"/dev/shm/rtmon-{os.getpid()}"))
    scratch.mkdir(parents=True, exist_ok=True)
    env = dict(os.environ)
    env.setdefault("PYTHONHASHSEED", "0")
    env["PYTHONDONTWRITEBYTECODE"] = "1"
    env["BELLOWS_VERIF"] = "1"
    env["PYTHONPATH"] = (
        (env["VERIF_BELLOWS_PATH"] + ":") if env.get("VERIF_BELLOWS_PATH") else ""
    ) + f"{ROOT}:{ROOT / '.deps'}" + (
        ":" + env["PYTHONPATH"] if env.get("PYTHONPATH") else ""
    )
    timeout_s = getattr(mod, "SHARD_TIMEOUT", {}).get(tier, 900)

    pending = list(enumerate(shards))
    running: dict[int, tuple] = {}
    results: dict[int, dict] = {}
    inconclusive: list[str] = []
    while pending or running:
        while pending and len(running) < N_WORKERS:
            i, desc = pending.pop(0)
            sf = scratch / f"shard{i}.json"
            of = scratch / f"out{i}.json"
            sf.write_text(json.dumps(desc))
            lf = open(scratch / f"log{i}.txt", "w")
            p = subprocess.Popen(
                [PY, "-m", "rtmon.runner", "--worker", pid, str(sf), str(of)],
                cwd=str(ROOT),
                env=env,
                stdout=lf,
                stderr=subprocess.STDOUT,
            )
            running[i] = (p, time.time(), of, lf)
        time.sleep(0.02)
        for i in list(running):
            p, started, of, lf = running[i]
            rc = p.poll()
            if rc is None:
                if time.time() - started > timeout_s:
                    p.kill()
                    p.wait()
                    lf.close()
                    del running[i]
                    inconclusive.append(f"shard {i} exceeded the {timeout_s}s watchdog")
                continue
            lf.close()
            del running[i]
            if rc != 0 or not of.exists():
                tail = (scratch / f"log{i}.txt").read_text()[-800:]
                inconclusive.append(f"shard {i} died rc={rc}: {tail}")
                continue
            out = json.loads(of.read_text())
            if "crash" in out:
                inconclusive.append(f"shard {i} crashed: {out['crash'][-1500:]}")
                if "partial" in out:
                    results[i] = out["partial"]
                continue
            if "multi" in out:
                for k, o in enumerate(out["multi"]):
                    results[i + (k + 1) / 100.0] = o
                continue
            results[i] = out

    # -- merge
    evaluations = sum(r["evaluations"] for r in results.values())
    sigs: set[int] = set()
    events: Counter = Counter()
    reach: Counter = Counter()
    contract: Counter = Counter()
    skipped: Counter = Counter()
    states: set = set()
    samples: list = []
    violations: list = []
    vcount = 0
    dropped = 0
    notes: list = []
    for i in sorted(results):
        r = results[i]
        sigs.update(r["sigs"])
        dropped += r["sigs_dropped"]
        events.update(r["events"])
        reach.update(r["reach"])
        contract.update(r["contract_evals"])
        skipped.update(r.get("skipped", {}))
        states.update(r["states"])
        for s in r["samples"]:
            if len(samples) < 6:
                samples.append(s)
        violations.extend(r["violations"])
        vcount += r["violation_count"]
        notes.extend(r["notes"])

    if hasattr(mod, "post_merge"):
        try:
            mod.post_merge(reach, tier, events)
        except TypeError:
            mod.post_merge(reach, tier)

    # -- classify violations against the committed known-findings file
    known = [k for k in load_known() if k["property"] == pid and k["status"] == "known"]
    known_hit: dict[str, int] = {}
    new_violations = []
    for v in violations:
        kk = next((k for k in known if k["key"] == v["key"]), None)
        if kk is not None:
            known_hit[kk["key"]] = known_hit.get(kk["key"], 0) + 1
        else:
            new_violations.append(v)

    # -- reach requirements
    missing = [name for name in getattr(mod, "REACH", {}).get(tier, []) if reach.get(name, 0) <= 0]

    wall = time.time() - t0
    evidence = {
        "property_id": pid,
        "tier": tier,
        "seed": seed,
        "level": mod.LEVEL,
        "coverage": {
            "evaluations": evaluations,
            "distinct_nontrivial": len(sigs),
            "rule": mod.RULE
            + (
                f" (signature sets are capped per shard; {dropped} further non-trivial"
                " cases were not added to the distinct count)"
                if dropped
                else ""
            ),
            "samples": samples,
            "events": dict(sorted(events.items())),
            "reach": dict(sorted(reach.items())),
            "reach_required": getattr(mod, "REACH", {}).get(tier, []),
            "reach_missing": missing,
            "states_seen": len(states),
            "states_sample": sorted(states)[:40],
            "contract_evaluations": dict(contract),
            "skipped_unspecified": dict(skipped),
            "shards": len(shards),
            "shards_completed": len({int(k) for k in results}),
            "known_findings_hit": known_hit,
            "notes": notes[:20],
        },
        "assumptions": list(mod.ASSUMPTIONS),
        "wall_s": round(wall, 2),
        "violations": len(new_violations) if vcount == len(violations) else vcount - sum(known_hit.values()),
    }
    if getattr(mod, "EXHAUSTIVE", {}).get(tier):
        evidence["coverage"]["exhaustive"] = True
        evidence["coverage"]["exhaustive_over"] = mod.EXHAUSTIVE[tier]
    EVIDENCE_DIR.mkdir(parents=True, exist_ok=True)
    ev_json = jsonable(evidence)
    err = _validate_evidence(ev_json) if not inconclusive else None
    (EVIDENCE_DIR / f"{pid}.json").write_text(json.dumps(ev_json, indent=1) + "\n")

    # clean scratch
    for f in scratch.iterdir():
        f.unlink()
    scratch.rmdir()

    print(
        f"[{pid}] tier={tier} seed={seed} shards={len({int(k) for k in results})}/{len(shards)} "
        f"evaluations={evaluations} distinct_nontrivial={len(sigs)} "
        f"violations={vcount} wall={wall:.1f}s"
    )
    print(f"[{pid}] events: " + ", ".join(f"{k}={v}" for k, v in sorted(events.items())))
    print(f"[{pid}] reach: " + ", ".join(f"{k}={v}" for k, v in sorted(reach.items())))
    for key, n in known_hit.items():
        kk = next(k for k in known if k["key"] == key)
        print(f"KNOWN-FINDING: property={pid} {kk['what']} [key={key}, hit {n}x]")
    rc = 0
    if new_violations:
        REPLAY_DIR.mkdir(parents=True, exist_ok=True)
        seen_keys = set()
        for v in new_violations:
            if v["key"] in seen_keys:
                continue
            seen_keys.add(v["key"])
            path = REPLAY_DIR / f"{pid}-{h64(json.dumps(jsonable(v['case']), sort_keys=True)):016x}.json"
            path.write_text(json.dumps(jsonable(v), indent=1) + "\n")
            print(f"[{pid}] violation key={v['key']}: {v['msg']}")
            print(f"VIOLATION property={pid} replay={path}")
        rc = 1
    if rc == 0 and (inconclusive or missing or err):
        for m in inconclusive:
            print(f"INCONCLUSIVE property={pid} reason={m}")
        if missing:
            print(f"INCONCLUSIVE property={pid} reason=reach requirements not met: {missing}")
        if err:
            print(f"INCONCLUSIVE property={pid} reason=evidence does not validate: {err}")
        rc = 2
    if rc == 0:
        print(f"[{pid}] HELD on everything explored")
    return rc


def main(argv=None) -> int:
    argv = list(sys.argv[1:] if argv is None else argv)
    if argv and argv[0] == "--worker":
        return worker_main(argv[1], argv[2], argv[3])
    if not argv:
        print("usage: check <ID> [quick|thorough] [--replay FILE]")
        return 2
    pid = argv[0]
    tier = os.environ.get("VERIF_TIER", "quick")
    replay = None
    rest = argv[1:]
    while rest:
        a = rest.pop(0)
        if a in ("quick", "thorough"):
            tier = a
        elif a == "--replay":
            replay = rest.pop(0)
    seed = int(os.environ.get("VERIF_SEED", "0"))
    if replay:
        mod = load_check(pid)
        v = json.loads(Path(replay).read_text())
        print(f"replaying {pid} case: {json.dumps(v['case'])[:2000]}")
        print(f"recorded message: {v['msg']}")
        acc = mod.replay(v["case"])
        for vv in acc.violations:
            print(f"VIOLATION property={mod.PROPERTY} replay={replay}\n  key={vv['key']}\n  {vv['msg']}")
            if vv.get("history"):
                print("  history:")
                for h in vv["history"]:
                    print("    ", h)
        return 1 if acc.violations else 0
    return run_check(pid, tier, seed)


if __name__ == "__main__":
    sys.exit(main())
