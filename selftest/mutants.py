"""Deliberate, realistic breaks used to test the monitors (DESIGN.md section 6).

Each entry: name, property, checks expected to catch it, file, old text, new text.
`tools/selftest.py` applies one entry at a time to a scratch copy of /repo (never to /repo),
runs the named checks against the copy and reports caught / missed.
"""

M = []


def mut(name, prop, file, old, new, checks=None, tier="quick", count=1):
    M.append(dict(name=name, prop=prop, file=file, old=old, new=new,
                  checks=checks or [prop], tier=tier, count=count))


ASH = "bellows/ash.py"

# ---- C02 -------------------------------------------------------------------------------
mut("c02-discard-never-cleared", "C02", ASH,
    "                self._discarding_until_next_flag = False\n", "                pass\n")
mut("c02-xon-not-stripped", "C02", ASH,
    "            elif reserved_byte == Reserved.XON:\n                # Resume transmission: not implemented!\n                _LOGGER.debug(\"Received XON byte, resuming transmission\")\n                self._buffer.pop(reserved_index)",
    "            elif reserved_byte == Reserved.XON:\n                # Resume transmission: not implemented!\n                _LOGGER.debug(\"Received XON byte, resuming transmission\")\n                self._buffer = self._buffer[reserved_index + 1 :]")
mut("c02-no-escape-validation", "C02", ASH,
    "                if byte not in RESERVED_BYTES:\n                    raise ParsingError(f\"Invalid escaped byte: 0x{byte:02X}\")\n", "")
mut("c02-buffer-unbounded", "C02", ASH,
    "            self._buffer = self._buffer[-MAX_BUFFER_SIZE:]", "pass")
mut("c02-cancel-keeps-prefix", "C02", ASH,
    "                # All data received since the previous Flag Byte to be ignored\n                self._buffer = self._buffer[reserved_index + 1 :]",
    "                # All data received since the previous Flag Byte to be ignored\n                self._buffer.pop(reserved_index)")

# ---- C03 -------------------------------------------------------------------------------
mut("c03-crc-seed-zero", "C03", ASH, "binascii.crc_hqx(data, 0xFFFF)", "binascii.crc_hqx(data, 0x0000)")
mut("c03-lfsr-seed", "C03", ASH, "    rand = 0x42\n", "    rand = 0x43\n")
mut("c03-xoff-not-stuffed", "C03", ASH, "            if c in RESERVED_BYTES:\n                out.extend",
    "            if c in RESERVED_BYTES and c != Reserved.XOFF:\n                out.extend")
mut("c03-retx-bit-moved", "C03", ASH, "                    | (self.re_tx) << 3\n                    | (self.ack_num) << 0\n                ]\n            )\n            + self._randomize",
    "                    | (self.re_tx) << 7\n                    | (self.ack_num) << 0\n                ]\n            )\n            + self._randomize")
# (dropping the RSTACK version check is not a violation of any stated property: not a mutant)

# ---- C04 -------------------------------------------------------------------------------
# (answering an out-of-sequence DATA frame with an ACK carrying the next expected number instead of a NAK is no longer
#  listed: C04 fixes the kind of the answer only for an accepted frame - see DESIGN 9.2, benign change C01-C)
mut("c04-accepted-frame-answered-with-nak", "C04", ASH,
    "            self._rx_seq = (frame.frm_num + 1) % 8\n            self._write_frame(AckFrame(res=0, ncp_ready=0, ack_num=self._rx_seq))",
    "            self._rx_seq = (frame.frm_num + 1) % 8\n            self._write_frame(NakFrame(res=0, ncp_ready=0, ack_num=self._rx_seq))")
mut("c04-rstack-not-zeroing-rx", "C04", ASH, "        self._tx_seq = 0\n        self._rx_seq = 0\n", "        self._tx_seq = 0\n")
mut("c04-acknum-is-frmnum", "C04", ASH,
    "            self._rx_seq = (frame.frm_num + 1) % 8\n            self._write_frame(AckFrame(res=0, ncp_ready=0, ack_num=self._rx_seq))",
    "            self._rx_seq = (frame.frm_num + 1) % 8\n            self._write_frame(AckFrame(res=0, ncp_ready=0, ack_num=frame.frm_num))")
mut("c04-retx-dup-delivered", "C04", ASH,
    "        elif frame.re_tx:\n            # Retransmitted frames must be immediately ACKed even if they are out of\n            # sequence\n            self._write_frame(AckFrame(res=0, ncp_ready=0, ack_num=self._rx_seq))",
    "        elif frame.re_tx:\n            # Retransmitted frames must be immediately ACKed even if they are out of\n            # sequence\n            self._write_frame(AckFrame(res=0, ncp_ready=0, ack_num=self._rx_seq))\n            self._ezsp_protocol.data_received(frame.ezsp_frame)")
mut("c04-modulo-16", "C04", ASH, "            self._rx_seq = (frame.frm_num + 1) % 8\n", "            self._rx_seq = (frame.frm_num + 1) % 16\n")

# ---- C05 -------------------------------------------------------------------------------
mut("c05-one-more-attempt", "C05", ASH, "ACK_TIMEOUTS - 1", "ACK_TIMEOUTS", count=2)
mut("c05-retx-never-set", "C05", ASH, "                        re_tx=(attempt > 0),", "                        re_tx=False,")
mut("c05-failed-gate-removed", "C05", ASH,
    "                    if self._ncp_state == NcpState.FAILED:", "                    if False:")
mut("c05-clamp-max-removed", "C05", ASH,
    "        new_value = max(T_RX_ACK_MIN, min(new_value, T_RX_ACK_MAX))", "        new_value = max(T_RX_ACK_MIN, new_value)")
mut("c05-clamp-min-removed", "C05", ASH,
    "        new_value = max(T_RX_ACK_MIN, min(new_value, T_RX_ACK_MAX))", "        new_value = min(new_value, T_RX_ACK_MAX)")
mut("c05-new-frame-number-on-retry", "C05", ASH,
    "                    if frm_num is None:\n                        frm_num = self._tx_seq",
    "                    if True:\n                        frm_num = self._tx_seq")
mut("c05-exhaustion-not-reported", "C05", ASH,
    "                        self._change_ack_timeout(2 * self._t_rx_ack)\n\n                        if attempt >= ACK_TIMEOUTS - 1:\n                            self._enter_failed_state(\n                                t.NcpResetCode.ERROR_EXCEEDED_MAXIMUM_ACK_TIMEOUT_COUNT\n                            )\n                            raise",
    "                        self._change_ack_timeout(2 * self._t_rx_ack)\n\n                        if attempt >= ACK_TIMEOUTS - 1:\n                            raise")
mut("c05-tx-window-two", "C05", ASH, "TX_K = 1 ", "TX_K = 2 ")
mut("c05-stale-ack-accepted", "C05", ASH, "        for ack_num_offset in range(-TX_K, 0):", "        for ack_num_offset in range(-TX_K, 1):")

# ---- C18 -------------------------------------------------------------------------------
NAMED = "bellows/types/named.py"
mut("c18-unknown-maps-to-ok", "C18", NAMED, "            return cls.FAIL\n", "            return cls.OK\n")
mut("c18-busy-maps-to-fail", "C18", NAMED,
    "        (EmberStatus.NETWORK_BUSY, sl_Status.ZIGBEE_MAX_MESSAGE_LIMIT_REACHED),", "        (EmberStatus.NETWORK_BUSY, sl_Status.FAIL),")
mut("c18-not-joined-dropped", "C18", NAMED, "        (EmberStatus.NOT_JOINED, sl_Status.NOT_JOINED),\n", "")

# ---- C01 -------------------------------------------------------------------------------
mut("c01-handle-ack-off-by-one", "C01", ASH,
    "            ack_num = (frame.ack_num + ack_num_offset) % 8", "            ack_num = (frame.ack_num + ack_num_offset + 1) % 8",
    checks=["C01", "C05"])
mut("c01-retx-dup-delivered", "C01", ASH,
    "        elif frame.re_tx:\n            # Retransmitted frames must be immediately ACKed even if they are out of\n            # sequence\n            self._write_frame(AckFrame(res=0, ncp_ready=0, ack_num=self._rx_seq))",
    "        elif frame.re_tx:\n            # Retransmitted frames must be immediately ACKed even if they are out of\n            # sequence\n            self._write_frame(AckFrame(res=0, ncp_ready=0, ack_num=self._rx_seq))\n            self._ezsp_protocol.data_received(frame.ezsp_frame)")
mut("c01-shield-removed", "C01", ASH,
    "        await asyncio.shield(\n            create_eager_task(", "        await (\n            create_eager_task(")
mut("c01-tx-modulo-16", "C05", ASH, "                        self._tx_seq = (self._tx_seq + 1) % 8", "                        self._tx_seq = (self._tx_seq + 1) % 16",
    checks=["C05", "C03", "C01"])
mut("c01-crc-not-checked", "C01", ASH,
    "        if computed_crc != data[-2:]:", "        if False:", checks=["C01", "C02", "C03"])
mut("c01-complete-on-any-ack", "C01", ASH,
    "            if fut is None or fut.done():\n                continue\n\n            self._pending_data_frames[ack_num].set_result(True)",
    "            if fut is None or fut.done():\n                for f2 in self._pending_data_frames.values():\n                    if not f2.done():\n                        f2.set_result(True)\n                continue\n\n            self._pending_data_frames[ack_num].set_result(True)",
    checks=["C01", "C05"])
mut("c01-nak-acks-frame", "C01", ASH,
    "        self._cancel_pending_data_frames(NotAcked(frame=frame))",
    "        for fut in self._pending_data_frames.values():\n            if not fut.done():\n                fut.set_result(True)",
    checks=["C01", "C05"])

# ---- C07 -------------------------------------------------------------------------------
mut("c07-v8-header-swapped", "C07", "bellows/ezsp/v8/__init__.py",
    "        hdr = [self._seq, 0x00, 0x01]", "        hdr = [self._seq, 0x01, 0x00]", checks=["C07", "C09"])
mut("c07-v5-header-ext-byte", "C07", "bellows/ezsp/v5/__init__.py",
    "        frame = [self._seq, 0x00, 0xFF, 0x00, cmd_id]", "        frame = [self._seq, 0x00, 0xFF, 0x01, cmd_id]", checks=["C07", "C09"])
mut("c07-kwargs-override-order", "C07", "bellows/types/__init__.py",
    "    return b\"\".join(t(params[k]).serialize() for k, t in schema.items())",
    "    return b\"\".join(schema[k](v).serialize() for k, v in params.items())")
mut("c07-v9-field-dropped", "C07", "bellows/ezsp/v9/commands.py",
    "\"setChildData\": (", "\"setChildData_\": (")
mut("c07-v4-rx-id-offset", "C07", "bellows/ezsp/v4/__init__.py",
    "        return data[0], data[2], data[3:]", "        return data[0], data[2], data[4:]", checks=["C07", "C08"])
mut("c07-v8-rx-id-8bit", "C07", "bellows/ezsp/v8/__init__.py",
    "        frame_id, data = t.uint16_t.deserialize(data)\n", "        frame_id, data = data[0], data[2:]\n")
mut("c07-duplicate-frame-id", "C07", "bellows/ezsp/v4/commands.py", "\"nop\": (\n        0x05,", "\"nop\": (\n        0x06,")

# ---- C08 -------------------------------------------------------------------------------
EZ = "bellows/ezsp/__init__.py"
PROTO = "bellows/ezsp/protocol.py"
mut("c08-catch-all-removed", "C08", EZ,
    "        try:\n            self._protocol(data)\n        except Exception:\n            LOGGER.warning(\"Failed to parse frame, ignoring\")",
    "        self._protocol(data)")
mut("c08-id-assertion-removed", "C08", PROTO, "                assert expected_id == frame_id\n", "")
mut("c08-parse-failure-still-dispatched", "C08", PROTO,
    "                exc_info=True,\n            )\n            raise\n", "                exc_info=True,\n            )\n            result = []\n")
mut("c08-unknown-id-raises-keyerror-late", "C08", PROTO,
    "        if sequence in self._awaiting:\n            expected_id, schema, future = self._awaiting.pop(sequence)",
    "        if sequence in self._awaiting or (sequence - 1) % 256 in self._awaiting:\n            expected_id, schema, future = self._awaiting.pop(sequence if sequence in self._awaiting else (sequence - 1) % 256)")
# (removing the empty-frame guard is behaviourally equivalent: the catch-all contains the IndexError)

# ---- C06 -------------------------------------------------------------------------------
mut("c06-seq-plus-2", "C06", PROTO, "            self._seq = (self._seq + 1) % 256", "            self._seq = (self._seq + 2) % 256", checks=["C06", "C07"])
mut("c06-seq-mod-128", "C06", PROTO, "            self._seq = (self._seq + 1) % 256", "            self._seq = (self._seq + 1) % 128")
mut("c06-keepalive-deprioritised", "C06", PROTO, "            \"nop\": 999,", "            \"nop\": -5,")
mut("c06-send-commands-prioritised", "C06", PROTO, "            \"sendUnicast\": -1,", "            \"sendUnicast\": 1,")
mut("c06-concurrency-2", "C06", PROTO, "MAX_COMMAND_CONCURRENCY = 1", "MAX_COMMAND_CONCURRENCY = 2")
mut("c06-callbacks-fanned-out-twice", "C06", EZ,
    "        for _callback_id, handler in self._callbacks.items():\n            try:\n                handler(*args)",
    "        for _callback_id, handler in list(self._callbacks.items()) * 2:\n            try:\n                handler(*args)",
    checks=["C06", "C07"])
mut("c06-awaiting-not-popped", "C06", PROTO,
    "            expected_id, schema, future = self._awaiting.pop(sequence)", "            expected_id, schema, future = self._awaiting[sequence]")
mut("c06-timeout-outside-lock-release", "C06", PROTO,
    "                async with asyncio_timeout(EZSP_CMD_TIMEOUT):\n                    return await future\n            finally:",
    "                pass\n            finally:\n                pass\n        try:\n            if True:\n                async with asyncio_timeout(EZSP_CMD_TIMEOUT):\n                    return await future\n        finally:\n            if True:")
mut("c06-awaiting-keyed-by-next-seq", "C06", PROTO,
    "            seq = self._seq\n            self._awaiting[seq] = (cmd_id, rx_schema, future)\n            self._seq = (self._seq + 1) % 256",
    "            self._seq = (self._seq + 1) % 256\n            seq = self._seq\n            self._awaiting[seq] = (cmd_id, rx_schema, future)", checks=["C06", "C07"])

# ---- C15 -------------------------------------------------------------------------------
MC = "bellows/multicast.py"
APP = "bellows/zigbee/application.py"
mut("c15-no-rollback-on-rejection", "C15", MC,
    "                status,\n            )\n            self._available.add(idx)\n            return status[0]\n", "                status,\n            )\n            return status[0]\n")
mut("c15-timeout-leaks-index", "C15", MC,
    "        except Exception:\n            # The table write did not complete: the slot is still unused\n            self._available.add(idx)\n            raise",
    "        except Exception:\n            raise")
mut("c15-unsubscribe-forgets-on-rejection", "C15", MC,
    "        entry.endpoint = t.uint8_t(0)\n        status = await self._ezsp.setMulticastTableEntry(idx, entry)\n",
    "        entry.endpoint = t.uint8_t(0)\n        self._multicast.pop(group_id)\n        self._multicast[group_id] = (entry, idx)\n        status = await self._ezsp.setMulticastTableEntry(idx, entry)\n        self._multicast.pop(group_id, None)\n")
mut("c15-unsubscribe-keeps-index", "C15", MC,
    "        self._multicast.pop(group_id)\n        self._available.add(idx)\n", "        self._multicast.pop(group_id)\n")
mut("c15-subscribe-twice-writes", "C15", MC,
    "        if group_id in self._multicast:\n            LOGGER.debug(\"%s is already subscribed\", t.EmberMulticastId(group_id))\n            return t.sl_Status.OK\n", "")
mut("c15-init-treats-empty-as-used", "C15", MC,
    "            if entry.endpoint != 0:\n                self._multicast[entry.multicastId] = (entry, i)",
    "            if entry.multicastId != 0 or entry.endpoint != 0:\n                self._multicast[entry.multicastId] = (entry, i)")

# ---- C16 -------------------------------------------------------------------------------
mut("c16-grow-only-strict-greater", "C16", EZ, "                and current_value >= cfg.value\n", "                and current_value > cfg.value + 4\n")
mut("c16-grow-only-ignored", "C16", EZ, "                and cfg.minimum\n", "                and False\n")
mut("c16-buffer-count-not-moved", "C16", EZ,
    "            ezsp_config[\n                t.EzspConfigId.CONFIG_PACKET_BUFFER_COUNT.name\n            ] = ezsp_config.pop(t.EzspConfigId.CONFIG_PACKET_BUFFER_COUNT.name)", "            pass")
mut("c16-rejection-aborts", "C16", EZ,
    "                    \"Could not set config %s = %s: %s\",\n                    cfg.config_id,\n                    cfg.value,\n                    status,\n                )\n                continue",
    "                    \"Could not set config %s = %s: %s\",\n                    cfg.config_id,\n                    cfg.value,\n                    status,\n                )\n                break")
mut("c16-disabled-still-written", "C16", EZ,
    "            if value is None:\n                ezsp_config.pop(name, None)\n                continue\n", "            if value is None:\n                continue\n")
mut("c16-override-inherits-minimum", "C16", EZ,
    "            ezsp_config[name] = RuntimeConfig(\n                config_id=t.EzspConfigId[name],\n                value=value,\n            )",
    "            ezsp_config[name] = RuntimeConfig(\n                config_id=t.EzspConfigId[name],\n                value=value,\n                minimum=True,\n            )")
mut("c16-source-route-table-not-minimum", "C16", "bellows/ezsp/config.py",
    "        config_id=t.EzspConfigId.CONFIG_SOURCE_ROUTE_TABLE_SIZE,\n        value=200,\n        minimum=True,", "        config_id=t.EzspConfigId.CONFIG_SOURCE_ROUTE_TABLE_SIZE,\n        value=200,")

# ---- C19 -------------------------------------------------------------------------------
mut("c19-raise-one-early", "C19", APP, "            if self._watchdog_failures > MAX_WATCHDOG_FAILURES:", "            if self._watchdog_failures >= MAX_WATCHDOG_FAILURES:")
mut("c19-no-reset-on-success", "C19", APP, "        else:\n            self._watchdog_failures = 0\n", "        else:\n            pass\n")
mut("c19-v4-reads-counters", "C19", APP, "            if self._ezsp.ezsp_version == 4:\n                await self._ezsp.nop()", "            if self._ezsp.ezsp_version < 4:\n                await self._ezsp.nop()")
mut("c19-clear-period-off-by-one", "C19", APP, "                if remainder > 0:\n                    current_counters = await self._ezsp.read_counters()", "                if remainder > 1:\n                    current_counters = await self._ezsp.read_counters()")
mut("c19-ezsp-error-not-counted", "C19", APP, "        except (asyncio.TimeoutError, EzspError) as exc:", "        except asyncio.TimeoutError as exc:")
mut("c19-reset-in-finally", "C19", APP, "            self._watchdog_failures += 1\n            if self._watchdog_failures > MAX_WATCHDOG_FAILURES:\n                self.state.counters[COUNTERS_CTRL][COUNTER_WATCHDOG].increment()\n                raise",
    "            self._watchdog_failures += 1\n            if self._watchdog_failures > MAX_WATCHDOG_FAILURES:\n                self.state.counters[COUNTERS_CTRL][COUNTER_WATCHDOG].increment()\n                self._watchdog_failures = 0\n                raise")

# ---- C17 -------------------------------------------------------------------------------
mut("c17-form-listener-after-command", "C17", EZ,
    "        with self.wait_for_stack_status(t.sl_Status.NETWORK_UP) as stack_status:\n            v = await self._command(\"formNetwork\", parameters=parameters)\n\n            if t.sl_Status.from_ember_status(v[0]) != t.sl_Status.OK:\n                raise zigpy.exceptions.FormationFailure(f\"Failure forming network: {v}\")\n\n            async with asyncio_timeout(NETWORK_OPS_TIMEOUT):\n                await stack_status",
    "        v = await self._command(\"formNetwork\", parameters=parameters)\n\n        if t.sl_Status.from_ember_status(v[0]) != t.sl_Status.OK:\n            raise zigpy.exceptions.FormationFailure(f\"Failure forming network: {v}\")\n\n        with self.wait_for_stack_status(t.sl_Status.NETWORK_UP) as stack_status:\n            async with asyncio_timeout(NETWORK_OPS_TIMEOUT):\n                await stack_status")
mut("c17-scan-callback-not-removed", "C17", EZ,
    "        finally:\n            self.remove_callback(cbid)\n\n        return results", "        finally:\n            pass\n\n        return results")
mut("c17-scan-callback-after-command", "C17", EZ,
    "        cbid = self.add_callback(cb)\n        try:\n            v = await self._command(name, *args, **kwargs)",
    "        cbid = None\n        try:\n            v = await self._command(name, *args, **kwargs)\n            cbid = self.add_callback(cb)")
mut("c17-listener-not-removed", "C17", EZ,
    "        try:\n            yield future\n        finally:\n            with contextlib.suppress(ValueError):\n                listeners.remove(future)",
    "        yield future")
mut("c17-leave-ignores-refusal", "C17", EZ,
    "            if status != t.sl_Status.OK:\n                raise EzspError(f\"failed to leave network: {status.name}\")\n", "")
mut("c17-any-status-event-completes", "C17", EZ,
    "        for listener in self._stack_status_listeners[status]:\n            listener.set_result(status)",
    "        for lst in list(self._stack_status_listeners.values()):\n            for listener in list(lst):\n                listener.set_result(status)")
mut("c17-bringup-listener-after-init", "C17", APP,
    "        with self._ezsp.wait_for_stack_status(t.sl_Status.NETWORK_UP) as stack_status:\n            init_status = await self._ezsp.initialize_network()\n",
    "        init_status = await self._ezsp.initialize_network()\n        with self._ezsp.wait_for_stack_status(t.sl_Status.NETWORK_UP) as stack_status:\n")
mut("c17-form-timeout-from-issue", "C17", EZ,
    "            v = await self._command(\"formNetwork\", parameters=parameters)\n\n            if t.sl_Status.from_ember_status(v[0]) != t.sl_Status.OK:\n                raise zigpy.exceptions.FormationFailure(f\"Failure forming network: {v}\")\n\n            async with asyncio_timeout(NETWORK_OPS_TIMEOUT):\n                await stack_status",
    "            async with asyncio_timeout(NETWORK_OPS_TIMEOUT):\n                v = await self._command(\"formNetwork\", parameters=parameters)\n\n                if t.sl_Status.from_ember_status(v[0]) != t.sl_Status.OK:\n                    raise zigpy.exceptions.FormationFailure(f\"Failure forming network: {v}\")\n\n                await stack_status")
mut("c06-stale-awaiting-entry", "C06", PROTO,
    "                if seq in self._awaiting and self._awaiting[seq][2] is future:\n                    del self._awaiting[seq]", "                pass", checks=["C06", "C17"])

# ---- C10 / C11 ---------------------------------------------------------------------------
UART = "bellows/uart.py"
mut("c10-d7-reset-future-unguarded", "C10", UART,
    "            if not self._reset_future.done():\n                self._reset_future.set_exception(reason)", "            self._reset_future.set_exception(reason)",
    checks=["C10", "C11"])
mut("c10-d7-startup-future-unguarded", "C11", UART,
    "        if self._startup_reset_future and not self._startup_reset_future.done():", "        if self._startup_reset_future:", checks=["C11", "C10"])
mut("c10-no-close-in-failed-state", "C10", EZ,
    "            LOGGER.error(\"NCP entered failed state. Requesting APP controller restart\")\n            self.close()\n",
    "            LOGGER.error(\"NCP entered failed state. Requesting APP controller restart\")\n")
# (dropping the is_closing() half of the closed-transport gate is equivalent here: close() and
#  connection_lost() both clear the transport reference before anything else can write)
mut("c10-needs-two-app-callbacks", "C10", EZ, "        if len(self._callbacks) > 1:", "        if len(self._callbacks) > 2:")
mut("c10-connection-loss-not-forwarded", "C10", UART,
    "        LOGGER.error(\"Lost serial connection: %r\", exc)\n        self._application.connection_lost(exc)", "        LOGGER.error(\"Lost serial connection: %r\", exc)")
mut("c10-error-frame-not-reported", "C10", ASH,
    "        # Cancel all pending requests\n        self._enter_failed_state(self._ncp_reset_code)", "        # Cancel all pending requests\n        self._cancel_pending_data_frames(NcpFailure(code=self._ncp_reset_code))")
mut("c10-eof-ignored", "C10", UART,
    "        self.connection_lost(ConnectionResetError(\"Remote server closed connection\"))", "        pass")
mut("c10-nonsoftware-rstack-completes-reset", "C11", UART,
    "        if code is not t.NcpResetCode.RESET_SOFTWARE:\n            self._application.enter_failed_state(code)\n            return\n", "", checks=["C11", "C10"])
mut("c10-ash-timeout-exhaustion-silent", "C10", ASH,
    "        self._ncp_state = NcpState.FAILED\n        self._cancel_pending_data_frames(NcpFailure(code=reset_code))\n        self._ezsp_protocol.reset_received(reset_code)",
    "        self._ncp_state = NcpState.FAILED\n        self._cancel_pending_data_frames(NcpFailure(code=reset_code))", checks=["C10", "C05"])
mut("c11-reset-without-cancel-prefix", "C11", ASH, "        self._write_frame(RstFrame(), prefix=(Reserved.CANCEL,))", "        self._write_frame(RstFrame())", checks=["C11", "C09"])
mut("c11-reset-timeout-not-applied", "C11", UART,
    "        async with asyncio_timeout(RESET_TIMEOUT):\n            return await self._reset_future", "        return await self._reset_future", checks=["C11", "C10"])
mut("c11-waiters-not-released-on-loss", "C11", UART,
    "        if self._reset_future:\n            if not self._reset_future.done():\n                self._reset_future.set_exception(reason)\n            self._reset_future = None\n", "")
mut("c11-rstack-does-not-restart-tx-numbering", "C11", ASH, "        self._tx_seq = 0\n        self._rx_seq = 0\n", "        self._rx_seq = 0\n", checks=["C11", "C05"])

# ---- C09 -------------------------------------------------------------------------------
mut("c09-no-fallback-to-v4-on-reset", "C09", EZ, "        self._switch_protocol_version(v4.EZSPv4.VERSION)\n        self.start_ezsp()", "        self.start_ezsp()")
mut("c09-second-version-query-skipped", "C09", EZ, "            self._switch_protocol_version(ver)\n            await self._command(\"version\", desiredProtocolVersion=ver)", "            self._switch_protocol_version(ver)")
mut("c09-newer-version-keyerror", "C09", EZ, "        for cfg in DEFAULT_CONFIG[self._protocol.VERSION]:", "        for cfg in DEFAULT_CONFIG[self._ezsp_version]:")
mut("c09-unknown-version-falls-back-to-v8", "C09", EZ, "            version = EZSP_LATEST\n", "            version = 8\n")
mut("c09-version-kept-as-latest", "C09", EZ, "        self._ezsp_version = version\n\n        if version not in self._BY_VERSION:", "        self._ezsp_version = min(version, EZSP_LATEST)\n\n        if version not in self._BY_VERSION:")
# (not starting EZSP after a seen start-up reset only causes one extra, harmless reset: equivalent)

# ---- C12 -------------------------------------------------------------------------------
mut("c12-pending-key-without-destination", "C12", APP,
    "            pending_tag = (packet.dst.address, message_tag)\n", "            pending_tag = (0, message_tag)\n", count=1)
mut("c12-confirmation-key-tag-only", "C12", APP,
    "            pending_tag = (destination, message_tag)\n            request = self._pending[pending_tag]",
    "            pending_tag = next((k for k in self._pending if k[1] == message_tag), (destination, message_tag))\n            request = self._pending[pending_tag]")
mut("c12-req-lock-removed", "C12", APP,
    "                    async with self._req_lock:\n", "                    if True:\n")
# (shortening RETRY_DELAYS is a re-tuning of a configured constant the oracle reads from the tree: not a mutant)
mut("c12-failed-confirmation-ignored", "C12", APP,
    "                if t.sl_Status.from_ember_status(send_status) != t.sl_Status.OK:\n                    raise zigpy.exceptions.DeliveryError(",
    "                if False:\n                    raise zigpy.exceptions.DeliveryError(")
mut("c12-busy-not-retried-transmit-busy", "C12", APP,
    "                        t.sl_Status.TRANSMIT_BUSY,\n", "")
mut("c12-refusal-treated-as-busy", "C12", APP,
    "                    elif status not in (\n                        t.sl_Status.ZIGBEE_MAX_MESSAGE_LIMIT_REACHED,",
    "                    elif status not in (\n                        t.sl_Status.INVALID_STATE,\n                        t.sl_Status.ZIGBEE_MAX_MESSAGE_LIMIT_REACHED,")
mut("c12-multicast-waits-for-confirmation", "C12", APP,
    "                if packet.dst.addr_mode != zigpy.types.AddrMode.NWK:\n                    return\n", "")
mut("c12-v14-status-order", "C12", APP,
    "                (\n                    status,\n                    message_type,\n                    destination,\n                    aps_frame,\n                    message_tag,\n                    message,\n                ) = args\n            else:",
    "                (\n                    message_type,\n                    status,\n                    destination,\n                    aps_frame,\n                    message_tag,\n                    message,\n                ) = args\n            else:")
mut("c12-no-sleep-between-retries", "C12", APP, "                            await asyncio.sleep(retry_delay)\n", "                            await asyncio.sleep(0)\n")

# ---- C13 -------------------------------------------------------------------------------
mut("c13-v14-lqi-rssi-swapped", "C13", APP,
    "                    address_index,\n                    lqi,\n                    rssi,\n                    _timestamp,", "                    address_index,\n                    rssi,\n                    lqi,\n                    _timestamp,")
mut("c13-deny-join-treated-as-join", "C13", APP,
    "        if decision == t.EmberJoinDecision.DENY_JOIN:\n            # no point in handling the join if it was denied\n            return\n", "")
mut("c13-multicast-dst-uses-own-nwk", "C13", APP,
    "                addr_mode=zigpy.types.AddrMode.Group, address=aps_frame.groupId", "                addr_mode=zigpy.types.AddrMode.Group, address=self.state.node_info.nwk")
mut("c13-tsn-from-binding-index", "C13", APP, "                tsn=aps_frame.sequence,", "                tsn=binding_index,")
mut("c13-endpoints-swapped", "C13", APP,
    "                src_ep=aps_frame.sourceEndpoint,", "                src_ep=aps_frame.destinationEndpoint,")
mut("c13-reply-type-accepted", "C13", APP,
    "        elif message_type == t.EmberIncomingMessageType.INCOMING_UNICAST:", "        elif message_type in (t.EmberIncomingMessageType.INCOMING_UNICAST, t.EmberIncomingMessageType.INCOMING_UNICAST_REPLY):")
mut("c13-leave-after-deny-check", "C13", APP,
    "        if device_update_status == t.EmberDeviceUpdate.DEVICE_LEFT:\n            self.handle_leave(nwk, ieee)\n            return\n",
    "        if device_update_status == t.EmberDeviceUpdate.DEVICE_LEFT and decision != t.EmberJoinDecision.DENY_JOIN:\n            self.handle_leave(nwk, ieee)\n            return\n")
mut("c13-v14-schema-field-order", "C13", "bellows/ezsp/v14/commands.py",
    "\"lqi\": t.uint8_t,\n            \"rssi\": t.int8s,", "\"rssi\": t.int8s,\n            \"lqi\": t.uint8_t,")

# ---- C14 -------------------------------------------------------------------------------
UTIL = "bellows/zigbee/util.py"
mut("c14-missing-network-key-flag", "C14", UTIL, "        | t.EmberInitialSecurityBitmask.HAVE_NETWORK_KEY\n", "")
mut("c14-tc-eui64-flag-always", "C14", UTIL,
    "    else:\n        isc.preconfiguredTrustCenterEui64 = t.EUI64.convert(\"00:00:00:00:00:00:00:00\")",
    "    else:\n        isc.bitmask |= t.EmberInitialSecurityBitmask.HAVE_TRUST_CENTER_EUI64\n        isc.preconfiguredTrustCenterEui64 = t.EUI64.convert(\"00:00:00:00:00:00:00:00\")")
mut("c14-frame-counter-not-written", "C14", APP,
    "        await self._ezsp.write_nwk_frame_counter(network_info.network_key.tx_counter)\n", "")
mut("c14-network-key-seq-dropped", "C14", UTIL, "    isc.networkKeySequenceNumber = t.uint8_t(network_info.network_key.seq)", "    isc.networkKeySequenceNumber = t.uint8_t(0)")
mut("c14-hashed-tclk-not-used", "C14", UTIL,
    "        isc.preconfiguredKey, _ = t.KeyData.deserialize(\n            bytes.fromhex(network_info.stack_specific[\"ezsp\"][\"hashed_tclk\"])\n        )",
    "        isc.preconfiguredKey = t.KeyData(network_info.tc_link_key.key)")
mut("c14-v14-link-keys-v13-layout", "C14", "bellows/ezsp/v14/__init__.py",
    "                status,\n                context,\n                plaintext_key,\n                key_data,\n            ) = await self.exportLinkKeyByIndex(index=index)",
    "                context,\n                plaintext_key,\n                key_data,\n                status,\n            ) = await self.exportLinkKeyByIndex(index=index)")
mut("c14-update-id-not-written", "C14", APP, "        parameters.nwkUpdateId = t.uint8_t(network_info.nwk_update_id)", "        parameters.nwkUpdateId = t.uint8_t(0)")
mut("c14-channel-mask-from-channel", "C14", APP, "        parameters.channels = t.Channels(network_info.channel_mask)", "        parameters.channels = t.Channels.from_channel_list([network_info.channel])")
mut("c14-child-index-off", "C14", "bellows/ezsp/v10/__init__.py", "                index=index,\n                child_data=t.EmberChildDataV10(", "                index=0,\n                child_data=t.EmberChildDataV10(")
mut("c14-link-key-partner-lost-v13", "C14", "bellows/ezsp/v13/__init__.py", "                partner_ieee=eui64,\n", "")
mut("c14-v4-children-read-as-v7", "C14", "bellows/ezsp/v7/__init__.py", "            yield rsp.id, rsp.eui64, rsp.type", "            yield rsp.id, rsp.eui64, rsp.type\n            return", checks=["C14"])
mut("c14-hashed-flag-on-v4", "C14", APP, "        use_hashed_tclk = ezsp.ezsp_version > 4", "        use_hashed_tclk = ezsp.ezsp_version >= 4")

# ---- C20 -------------------------------------------------------------------------------
TH = "bellows/thread.py"
mut("c20-loop-comparison-inverted", "C20", TH, "            if loop == curr_loop:\n                return call()", "            if loop != curr_loop:\n                return call()")
mut("c20-closed-check-removed", "C20", TH,
    "            if loop.is_closed():\n                # Disconnected\n                LOGGER.warning(\"Attempted to use a closed event loop\")\n                return\n", "")
mut("c20-coroutine-detection-broken", "C20", TH, "            if asyncio.iscoroutinefunction(func):", "            if asyncio.iscoroutine(func):")
mut("c20-plain-call-run-inline", "C20", TH,
    "                loop.call_soon_threadsafe(check_result_wrapper)", "                check_result_wrapper()")
mut("c20-non-callable-allowed", "C20", TH,
    "        if not callable(func):\n            raise TypeError(", "        if False:\n            raise TypeError(")
mut("c20-result-future-not-wrapped", "C20", TH,
    "                return asyncio.wrap_future(future, loop=curr_loop)", "                return asyncio.wrap_future(future, loop=loop)")
mut("c20-plain-call-scheduled-twice", "C20", TH,
    "                loop.call_soon_threadsafe(check_result_wrapper)", "                loop.call_soon_threadsafe(check_result_wrapper)\n                loop.call_soon_threadsafe(check_result_wrapper)")
mut("c20-plain-value-returned-to-caller", "C20", TH,
    "                loop.call_soon_threadsafe(check_result_wrapper)", "                loop.call_soon_threadsafe(check_result_wrapper)\n                return 0")
