#!/usr/bin/env python3
"""Imports one seeded change produced by a sub-agent into /verif/seeded/<id>/ after confirming,
in a fresh scratch copy of /repo under /tmp, that
  (1) the demonstration passes on the unchanged tree,
  (2) the patch applies,
  (3) the demonstration fails with the patch,
  (4) the repository's stable baseline tests still pass with the patch.
usage: tools/import_seeded.py <worktree> <k> <seeded-id> <property> "<what it needs to manifest>"
"""
from __future__ import annotations

import json
import re
import shutil
import subprocess
import sys
import xml.etree.ElementTree as ET
from pathlib import Path

ROOT = Path(__file__).resolve().parent.parent
BASELINE = json.loads(Path("/root/.vp/BASELINE.json").read_text())


def sh(cmd, cwd, timeout=1800):
    p = subprocess.run(cmd, cwd=cwd, shell=True, capture_output=True, text=True, timeout=timeout)
    return p.returncode, (p.stdout + p.stderr)[-1500:]


def rerun_broken(scratch, broken):
    """Timing-based tests (tests/test_thread.py, test_ash_end_to_end) flake on a loaded machine: a test
    counted as broken is re-run on its own, twice; it stays broken only if it fails both times."""
    still = []
    for t in broken:
        mod, name = t.split("::", 1)
        node = mod.replace(".", "/") + ".py::" + name
        ok = False
        for _ in range(2):
            p = subprocess.run(["/venv/bin/python", "-m", "pytest", "-q", "-p", "no:cacheprovider", "-p", "no:sugar", "--timeout=120", node],
                               cwd=scratch, capture_output=True, text=True)
            if p.returncode == 0:
                ok = True
                break
        if not ok:
            still.append(t)
    return still


def main():
    wt, k, sid, prop, needs = sys.argv[1:6]
    src = Path(wt) / "SEEDED" / k
    dst = ROOT / "seeded" / sid
    scratch = Path("/tmp/rtmon-import") / sid
    if scratch.exists():
        shutil.rmtree(scratch)
    scratch.mkdir(parents=True)
    subprocess.run(["rsync", "-a", "--exclude", ".git", "--exclude", "__pycache__", "--exclude", "SEEDED", "/repo/", str(scratch) + "/"], check=True)
    (scratch / "SEEDED" / k).mkdir(parents=True)
    for f in src.iterdir():
        if f.is_file():
            shutil.copy(f, scratch / "SEEDED" / k / f.name)
    demo = scratch / "SEEDED" / k / "demo.py"
    text = demo.read_text()
    # demos refer to their worktree path: point them at the scratch copy
    text2 = text.replace(str(Path(wt)), str(scratch))
    demo.write_text(text2)
    use_pytest = bool(re.search(r"^(async )?def test_", text, re.M)) and "__main__" not in text
    run = (f"PYTHONPATH={scratch} /venv/bin/python -m pytest -q -p no:cacheprovider -p no:sugar --timeout=300 SEEDED/{k}/demo.py"
           if use_pytest else f"PYTHONPATH={scratch} /venv/bin/python SEEDED/{k}/demo.py")
    report = {"property": prop, "needs": needs, "demo_cmd": run.replace(str(scratch), "<scratch copy of /repo>"), "ran": []}
    rc0, out0 = sh(run, scratch)
    report["ran"].append({"step": "demo on unchanged tree", "rc": rc0})
    rc1, out1 = sh(f"patch -p1 -s < SEEDED/{k}/patch.diff", scratch)
    report["ran"].append({"step": "apply patch", "rc": rc1})
    rc2, out2 = sh(run, scratch)
    report["ran"].append({"step": "demo with the change", "rc": rc2, "tail": out2[-400:]})
    rc3, out3 = sh("/venv/bin/python -m pytest -q -p no:cacheprovider -p no:sugar --timeout=120 --continue-on-collection-errors "
                   f"--junitxml {scratch}/.junit.xml tests", scratch)
    passed = set()
    try:
        for tc in ET.parse(scratch / ".junit.xml").getroot().iter("testcase"):
            if not any(ch.tag in ("failure", "error", "skipped") for ch in tc):
                passed.add(f"{tc.get('classname')}::{tc.get('name')}")
    except Exception as e:  # noqa: BLE001
        report["junit_error"] = repr(e)
    broken = sorted(set(BASELINE["stable_pass"]) - passed)
    if broken and len(broken) <= 6:
        broken = rerun_broken(scratch, broken)
    report["ran"].append({"step": "baseline tests with the change", "stable_tests_broken": broken[:5], "n_passed": len(passed)})
    ok = rc0 == 0 and rc1 == 0 and rc2 != 0 and not broken
    report["confirmed"] = ok
    print(json.dumps(report, indent=1))
    if ok:
        dst.mkdir(parents=True, exist_ok=True)
        shutil.copy(src / "patch.diff", dst / "patch.diff")
        (dst / "demo.py").write_text(text.replace(str(Path(wt)), "<worktree>"))
        if (src / "notes.md").exists():
            shutil.copy(src / "notes.md", dst / "notes.md")
        report["checks"] = [prop]
        (dst / "meta.json").write_text(json.dumps(report, indent=1) + "\n")
        print("IMPORTED", dst)
    else:
        print("REJECTED", sid, "demo-unchanged rc", rc0, "patch rc", rc1, "demo-changed rc", rc2, "broken", broken[:3])
        if rc0 != 0:
            print(out0[-600:])
    shutil.rmtree(scratch, ignore_errors=True)


if __name__ == "__main__":
    main()
