#!/usr/bin/env python3
"""Regenerates CATCH_TABLE.md and the per-property summary in DESIGN.md section 10 (between the catch-summary markers)."""
import re
import subprocess
from pathlib import Path

ROOT = Path(__file__).resolve().parent.parent
out = subprocess.run(["/venv/bin/python", str(ROOT / "tools" / "catch_table.py")], capture_output=True, text=True).stdout
table = "\n".join(l for l in out.splitlines() if l.startswith("|"))
block = ("<!-- catch-summary-begin -->\n" + table + "\n\nOne row per change (which check caught it, the mechanism keys it reported, whether the "
         "repository's tests still pass with it; for property-preserving changes which checks were run and stayed silent): "
         "`CATCH_TABLE.md`.\n<!-- catch-summary-end -->")
p = ROOT / "DESIGN.md"
s = p.read_text()
if "CATCH-TABLE-PLACEHOLDER" in s:
    s = s.replace("CATCH-TABLE-PLACEHOLDER", block)
else:
    s = re.sub(r"<!-- catch-summary-begin -->.*?<!-- catch-summary-end -->", lambda m: block, s, flags=re.S)
p.write_text(s)
print(table)
