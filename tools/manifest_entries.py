"""Per-property manifest texts (one place to edit)."""


def register(add):
    add(
        "C03",
        "exploration",
        "differential runtime monitor: real encoder/parser/running host vs independent ASH codec; exhaustive over finite field spaces",
        "Every frame class is encoded and parsed by the real code and compared bit for bit with an "
        "independently written ASH codec (bitwise CRC-CCITT, LFSR, stuffing): all control-field values, all "
        "256 reset codes, all 256 control bytes, payload lengths 0..200 x 4 patterns, the bytes the running "
        "host hands to transport.write (DATA incl. retransmissions, ACK, NAK, RST) and every 1-/2-bit "
        "corruption of short frames (parse_frame and end-to-end).  Held on what was enumerated; the finite "
        "field spaces are covered completely, payload contents by 4 patterns per length.",
        "Trusted: rtmon/ashref.py as a reading of UG101; public names bellows.ash.parse_frame and the six "
        "frame classes; CPython asyncio.",
        "DESIGN.md 3/C03",
    )

    add(
        "C02",
        "exploration",
        "differential runtime monitor: real streaming receiver vs independent reference decoder over enumerated and mutated byte streams x read chunkings; tracemalloc memory probe",
        "The real data_received() is fed every stream up to a length bound over a reserved-byte-rich alphabet, "
        "every short sequence of whole frames / fragments / control bytes and seeded mutated frame "
        "concatenations, each under all 2^(n-1) chunkings (short) or whole/byte-wise/random chunkings (long); "
        "upward events and (ACK|NAK, ackNum) written back must equal the reference decoder's, nothing may raise, "
        "and >= 8 MiB of flag-free garbage must leave the retained buffer and traced memory bounded and the "
        "receiver able to decode the next frame.  Held on what was enumerated/sampled; says nothing about streams "
        "beyond the bounds.",
        "Trusted: rtmon/ashref.RefDecoder as a reading of UG101; latitude: DATA fields 0..256 accepted, ACK/NAK "
        "with a data field skipped, equivalence claimed below the receive-buffer bound only.",
        "DESIGN.md 3/C02",
    )
    add(
        "C04",
        "exploration",
        "online per-frame monitor: real receive path vs the specification's receive rule, exhaustive short frame sequences from all 8 states plus long random walks",
        "Well-formed frames (reference-encoded) are fed one per callback; after each, what the host handed up and "
        "wrote back during that call is compared with the receive rule (deliver iff frmNum is the expected one; "
        "one ACK/NAK with the next expected number; RSTACK restarts numbering and reports its code; ERROR reports "
        "its code; ACK/NAK/RST nothing upward).  Exhaustive over all sequences of the tier's length from each "
        "expected-number state, plus random walks with >= 1000 wraps, half of them with a host send pending.",
        "Trusted: rtmon/ashref codec (validated against the tree by C03) and receive rule.",
        "DESIGN.md 3/C04",
    )
    add(
        "C05",
        "fault_enumeration",
        "trace-specification monitor over timestamped wire trace in virtual time; per-attempt peer reactions enumerated incl. events placed exactly on the ACK-timeout instant (before/after the timer)",
        "Real AshProtocol on a deterministic virtual-time loop against a scripted peer.  Every script of "
        "per-attempt reactions {covering ACK, stale ACK, NAK, covering NAK, piggy-backed ack, silence, ERROR, "
        "RSTACK} x delay classes is enumerated to the tier's depth (thorough: complete for one send), plus "
        "seeded multi-send queues, sends after failure and recovery after RSTACK.  The offline oracle checks "
        "attempt budget, same number/payload, reTx flag, retry gap (0 on NAK else within [0.4,3.2] s), outcome "
        "vs covering ack, one notification per failure with reason, silence until RSTACK, one outstanding frame, "
        "consecutive numbering, and that no send hangs (loop run-dry = violation).",
        "Trusted: CPython asyncio ordering (schedule model DESIGN 2.1), reference codec; constants 0.4/3.2 s and "
        "0x51 from UG101; the attempt budget is read from the tree.",
        "DESIGN.md 3/C05",
    )
    add(
        "C18",
        "exploration",
        "exhaustive postcondition check of the status conversion + the same postcondition as an icontract at live call sites",
        "All 256 values of each legacy status family (defined and undefined), every unified status and seeded "
        "undefined 32-bit values are converted and judged against a numeric table taken from the SDK headers: "
        "never raises, unified unchanged, OK iff family success code, steering codes map to their counterparts. "
        "Exhaustive over the 8-bit families.",
        "Trusted: numeric constants in rtmon/contracts.py.",
        "DESIGN.md 3/C18",
    )
    add(
        "C01",
        "fault_enumeration",
        "offline history checker (exactly-once / in-order subsequence / completed-implies-delivered) over real host <-> faulty FIFO line <-> independent reference NCP endpoint; all 5^k per-frame fault vectors, enumerated caller-cancellation points, long seeded random runs",
        "Real AshProtocol against an independently written, specification-conforming NCP endpoint (windows 1..3) over "
        "a FIFO line that drops, detectably corrupts, duplicates or stalls frames.  Uniquely marked payloads are "
        "submitted by concurrent callers on both sides; the oracle checks that each side's upper-layer deliveries "
        "are a duplicate-free in-order subsequence of the other's submissions, that every returned send was "
        "delivered exactly once before it returned, that every frame the NCP saw acknowledged was handed up "
        "exactly once, and that with at most three faulted frames followed by a clean line no payload is lost - "
        "in particular not because another caller was cancelled (cancellations are placed on and after each wire "
        "frame, at +0, +0.5 s and +1.7 s).  All fault vectors over the first k frames are enumerated "
        "(k=5 quick, 6 thorough); long random runs wrap the 3-bit numbers hundreds of times.",
        "Trusted: rtmon/ashref.RefNcpAsh as a conforming NCP; FIFO line without reordering; detectable corruption "
        "only.  Liveness under continuing faults is not demanded (C05 decides termination).",
        "DESIGN.md 3/C01",
    )
    add(
        "C11",
        "fault_enumeration",
        "trace-specification monitor over real Gateway+AshProtocol in virtual time: all 256 RSTACK codes, ERROR codes, arrival instants incl. the exact timeout instant, all 64 frame-counter pairs, connection loss / EOF / clean close at every step",
        "reset() and wait_for_startup_reset() are driven against a scripted peer and a recording application stub.  "
        "The oracle checks: request bytes are exactly CANCEL+RST; the waiter completes iff an RSTACK(0x0B) arrived "
        "while it waited and otherwise raises a timeout at exactly RESET_TIMEOUT; every other RSTACK code and every "
        "ERROR code is reported once as an NCP failure and never completes the handshake; after completion both "
        "directions restart at frame number 0; a connection loss releases the waiter at once with the connection "
        "error, is reported to the application, never raises out of the protocol callback - including when it "
        "lands in the loop iteration in which the timeout expires.",
        "Trusted: schedule model (connection_lost via call_soon from an I/O callback); constants 0x0B and the RST "
        "encoding; RESET_TIMEOUT read from the tree.",
        "DESIGN.md 3/C11",
    )
    add(
        "C06",
        "exploration",
        "offline history checker over client/gateway/callback boundaries: request-response matching by sequence number, mutual exclusion, priority-queue model, sequence arithmetic; exhaustive 3-caller x class x NCP-behaviour schedules plus seeded schedules with cancellation",
        "Real EZSP + version handler (v4, v8, v13) in frame mode on the virtual-time loop.  Callers of three "
        "priority classes run concurrently; each request is answered per script (now, delayed, after the "
        "timeout, never, twice, callback before/after, foreign sequence, link-level send failure) and callers "
        "are cancelled while queued / sending / waiting.  The oracle checks R1 own response by sequence number, "
        "R2 TimeoutError exactly EZSP_CMD_TIMEOUT after the request was sent, R3 unsolicited frames reach every "
        "callback exactly once and nothing completes a foreign call, R4 one command between request and "
        "termination, R5 queued commands start in class order, FIFO within a class, R6 sequence +1 mod 256 "
        "(600-command runs wrap twice), R7 a probe command completes at quiescence.",
        "Trusted: zigpy's PriorityDynamicBoundedSemaphore, the frame-mode stub gateway, type-level serialisers; "
        "late replies and frames under a dead request's sequence are only required not to complete anything else.",
        "DESIGN.md 3/C06",
    )
    add(
        "C07",
        "exploration",
        "differential codec monitor at the gateway boundary and through EZSP.frame_received, every (version, command) pair enumerated; independent header codec",
        "For all 11 versions and every command (2 751 pairs): frame IDs unique; the real call in positional and "
        "keyword form emits the independently built header (sequence, frame control, ID in the version's layout) "
        "followed by each declared parameter's serialisation in declared order; an independently framed response "
        "carrying generated rx values completes the call with exactly those values and, unsolicited, reaches the "
        "callbacks as (name, values), re-serialises to the same bytes and leaves no trailing bytes.  Values come "
        "from the field types' own deserialisers over biased bytes (boundaries, empty/max lengths, undefined enums).",
        "Trusted: zigpy type-level (de)serialisers; header layouts in rtmon/ezspref.py (UG100).",
        "DESIGN.md 3/C07",
    )
    add(
        "C08",
        "exploration",
        "containment monitor under frame fuzzing through the real receive entry point, reference 'decodes fully' predicate, every version, with and without a pending command",
        "Frames derived from valid responses/callbacks by truncation at every length, byte flips, frame-ID and "
        "sequence substitution, plus random strings, are injected through EZSP.frame_received in all 11 versions.  "
        "Monitors: no exception escapes; the pending call is completed only by a frame with its own sequence and "
        "frame ID and exactly that frame's values (InvalidCommandError for invalidCommand under its sequence); a "
        "callback fires only for a frame the reference decodes completely as a known frame of the version, with "
        "the reference's values; a fresh command completes afterwards.",
        "Trusted: reference predicate uses the version's own ID table and the field types' deserialisers; "
        "frame-control bytes are not judged, trailing bytes are allowed.",
        "DESIGN.md 3/C08",
    )
    add(
        "C15",
        "fault_enumeration",
        "invariants at quiescent points established purely from return statuses and table writes (probe phase), exhaustive operation strings x per-write answers {success, rejection, timeout} x all initial NCP tables",
        "Real Multicast + real EZSP (frame mode) + NCP multicast-table model.  Every subscribe/unsubscribe "
        "string over three groups up to the tier's length, each table write answered success / rejection / "
        "timeout (not applied), from every initial table in which each group appears at most once, sizes 0..4, "
        "with and without start-up subscriptions.  After every string a probe phase checks that the groups the "
        "host treats as subscribed are exactly those with a non-zero endpoint in the NCP table, that "
        "re-subscribing writes nothing, that exactly as many further groups can be subscribed as the NCP table "
        "has unused indices (no leaked index after a failed call, by rejection or timeout), that writes only go "
        "to unused indices and that no group occupies two slots.",
        "Trusted: NCP table model (a timed-out write is not applied); status conversion for 'succeeds'.",
        "DESIGN.md 3/C15",
    )
    add(
        "C16",
        "exploration",
        "trace-specification monitor over the set-configuration / set-value frames seen by a configuration-store NCP model; twin run for the rejection clause",
        "Real EZSP.write_config in frame mode for every protocol version, seeded random current values per "
        "setting (below / equal / above default / unreadable), override sets over the version's own schema keys "
        "(new in-range value or None) and per-setting accept/reject answers, with forced coverage of the corner "
        "classes.  Oracle over the frames the NCP saw: each id set at most once; a capacity setting the user did "
        "not supply is never lowered below the reported value; a user value is written exactly; a disabled "
        "setting is never written and the call does not fail; the packet-buffer count is the last set frame; the "
        "attempted settings do not depend on accept/reject answers.",
        "Trusted: capacity-setting name list fixed in the oracle; plain-store NCP model; schema defaults count as "
        "library defaults, not user input.",
        "DESIGN.md 3/C16",
    )
    add(
        "C19",
        "exploration",
        "online monitor with a consecutive-failure counter as reference model; exhaustive outcome strings played through the real watchdog feed hook",
        "ControllerApplication._watchdog_feed on the real application + EZSP in frame mode, protocol versions 4, "
        "5, 8, 13, 14 (all in thorough).  Every success/failure string up to the tier's length (failure kind "
        "rotated over timeout / invalidCommand / EZSP stopped, placed in either command of the feed on versions "
        "above 4), every string over the full alphabet up to a shorter length, and a 400-feed all-success run.  "
        "Oracle: the feed raises iff the number of consecutive failures exceeds MAX_WATCHDOG_FAILURES, any "
        "success clears the count, the keep-alive is nop on v4 and a counter read otherwise, read-and-clear "
        "exactly on every period-th feed of the all-success run.",
        "Trusted: zigpy.util.Requests shim; NCP model; constants read from the tree.",
        "DESIGN.md 3/C19",
    )
    add(
        "C17",
        "exploration",
        "online outcome monitor with expected outcome and instant computed from delivery timestamps; all permutations of each operation's event multiset in virtual time; listener-population and stale-listener probes after every operation",
        "formNetwork, leaveNetwork, the application's network bring-up and startScan on the real EZSP in frame "
        "mode.  Every order of {response (ok / three refusal statuses), matching status event, non-matching "
        "status events, timeout expiry, caller cancellation} (and for scans {response, result callbacks, "
        "completion ok/failed, cancellation, a result before issue}) up to 6 events is played, operations "
        "repeated back to back.  The monitor checks outcome class and instant (return iff command ok and "
        "matching event after issue - even before the response - and before response time + operation "
        "timeout), scan results in order without pre-issue results, and after each operation that the "
        "callback / listener population is back at baseline and injected events raise nothing in a handler.",
        "Trusted: timeouts read from the tree; pre-issue status events and post-completion scan results are "
        "unconstrained; listener counts read from private attributes when present, stale listeners also "
        "detected through handler-exception log records.",
        "DESIGN.md 3/C17",
    )
    add(
        "C09",
        "fault_enumeration",
        "wire-trace specification monitor at a framing-strict simulated NCP (independent header decode) over the full real stack in virtual time; NCP versions 4..14,15,16,32 x path modes x all single and pair faults on the first 12 frames",
        "Real EZSP -> real uart.connect -> Gateway -> AshProtocol -> fake serial -> faulty FIFO line -> "
        "independent NCP ASH endpoint -> frame-level NCP that ignores frames not framed for its version.  "
        "connect, startup_reset, write_config, reset, version, write_config are run for every NCP version "
        "(incl. newer-than-known), serial and socket:// paths (NCP boot RSTACK absent / seen / late), fault-free "
        "and with every single and pair of {drop, corrupt, duplicate} faults on the first 12 frames.  Oracle: RST "
        "is CANCEL-prefixed and precedes DATA; after every NCP reset the first EZSP frame is the legacy version "
        "query, then version(V) in V's layout, then only V's layout; ezsp_version == V with V's (or the newest) "
        "tables; write_config completes; with faults on DATA/ACK only everything completes; with a fault on "
        "RST/RSTACK a failure must be clean and a second connect must succeed.",
        "Trusted: RefNcpAsh conformance; header layouts of rtmon/ezspref.py; newer NCPs assumed to use the v8+ "
        "layout and the newest tables; command bodies via the repository's schema tables.",
        "DESIGN.md 3/C09",
    )
    add(
        "C10",
        "fault_enumeration",
        "crash-point injection over every wire event of a scripted workload on the full real stack in virtual time, incl. crash points aligned with the host's own timers; bounded-termination, reset-request and silence monitors",
        "Wire mode (real EZSP, uart.connect, Gateway, AshProtocol; fake serial; FIFO line; independent NCP ASH "
        "endpoint; frame-level NCP).  The workload's fault-free wire events are enumerated and one run is made per "
        "(failure kind: ERROR codes, non-software RSTACK codes, silent NCP, connection_lost(OSError), EOF) x (wire "
        "event index) x (delivered before / after that event arrives), plus failures placed in the loop iteration "
        "in which a pending ACK / command / reset timer of the host expires.  Oracle: with an application callback "
        "registered a '_reset_controller_application' callback is observed (for silence: once a DATA frame went "
        "through its retry budget), a command issued afterwards raises EzspError in zero virtual time and no "
        "frame is written, every call terminates within EZSP_CMD_TIMEOUT + the ACK budget (+RESET_TIMEOUT), the "
        "loop never runs dry with a call pending, and a deliberate close produces no request.",
        "Trusted: schedule model for connection loss; a closed transport reports nothing further; timeouts read "
        "from the tree.",
        "DESIGN.md 3/C10",
    )
    add(
        "C12",
        "exploration",
        "offline history checker: outcome = f(NCP script), attempt spacing, bookkeeping conservation, non-interleaving of set-up frames; byte-level independent codec for sendUnicast / messageSentHandler; versions 4..14",
        "ControllerApplication + real EZSP in frame mode, virtual time.  Concurrent send_packet calls (unicast "
        "with/without source route and extended timeout, IEEE-addressed, multicast, broadcast) against an NCP "
        "that follows a per-request script of enqueue statuses (accepted, three busy statuses, three refusals, "
        "up to three attempts) and a confirmation behaviour (success, failure, none, duplicate, other tag, other "
        "destination, unsolicited, before the enqueue reply, after the timeout).  Oracle: returns iff accepted and "
        "own (destination, tag) confirmation with success; DeliveryError on refusal, busy after len(RETRY_DELAYS) "
        "attempts spaced at least the configured delays, or failed confirmation; TimeoutError APS_ACK_TIMEOUT "
        "after acceptance otherwise; multicast/broadcast return on acceptance; the pending table is empty "
        "afterwards; the send frame carries the packet's payload and APS fields; set-up and send frames of "
        "different requests never interleave (keep-alives may).",
        "Trusted: zigpy.util.Requests shim; byte layouts in this check; NCP model for everything else.",
        "DESIGN.md 3/C12",
    )
    add(
        "C13",
        "exploration",
        "differential monitor: byte-level independently encoded callbacks injected through EZSP.frame_received vs packets / join / leave events recorded at the zigpy boundary, every version",
        "The application is started through connect()/start_network() against the NCP model; packet_received, "
        "handle_join and handle_leave are replaced by recorders.  incomingMessageHandler frames with all 256 "
        "message-type values, random addresses/endpoints/profile/cluster/group/sequence, LQI and RSSI extremes and "
        "payloads 0..254 bytes, and trustCenterJoinHandler frames over all status x decision combinations, are "
        "encoded at byte level in the pre-v14 and v14 field orders.  Oracle: exactly one packet for unicast / "
        "multicast / broadcast with all fields equal and the destination reflecting the type, none otherwise; "
        "leave for DEVICE_LEFT, nothing for denied joins, join(nwk, ieee, parent) otherwise.",
        "Trusted: callback byte layouts (UG100) in this check; zigpy.util.Requests shim; NCP model for start-up.",
        "DESIGN.md 3/C13",
    )
    add(
        "C14",
        "exploration",
        "round-trip monitor through a stateful NCP model (write_network_info then load_network_info) plus byte-level decode of the security state the NCP received; versions 4..14 x NV3 capability x random network information",
        "The application writes random network / node information (keys, counters, link keys, children, hashed "
        "link key present or absent, node IEEE equal or different, trust-centre address known or unknown) to a "
        "plain-storage NCP model (blank or holding an earlier network) and reads it back.  Compared: PAN id, "
        "extended PAN id, channel, channel mask, update id, network key and sequence, TC link key incl. the hashed "
        "form in stack-specific data, link-key table (key, partner), node IEEE (rewritten only with the NV3 token), "
        "network-key frame counter (v5+), children with addresses (v9+).  The setInitialSecurityState request is "
        "decoded at byte level: keys, sequence, preconfigured key, TC EUI64 and the four presence flags.",
        "Trusted: the NCP model's storage semantics (the main false-alarm risk: every disagreement on the "
        "unchanged tree was triaged by hand); generator constraints listed in the check's assumptions.",
        "DESIGN.md 3/C14",
    )
    add(
        "C20",
        "exploration",
        "thread-identity and result-relay monitor under real threads, tiny switch interval and sys.monitoring LINE-hook yield injection inside the proxy's dispatch code; owner loop running / being stopped / closed",
        "Real EventLoopThread + ThreadsafeProxy around a probe whose methods record (under a lock) the thread and "
        "loop they ran on.  Bursts of calls of every method kind come from the owner loop and from 2-4 other "
        "threads with their own loops, while the owner loop runs, while force_stop() races the burst, and after "
        "the thread-complete future resolved.  Oracle: a cross-loop call's body runs exactly once on the owner "
        "thread and loop, never on the caller's; coroutine calls relay value / exception; plain calls return "
        "nothing to the caller; owner-loop calls run directly; non-callable attributes raise TypeError; calls "
        "started after the loop is closed return nothing promptly and never execute; calls racing the stop are "
        "unconstrained except for the executing thread.",
        "Trusted: CPython threading/asyncio; monitor log protected by its own lock; wall-clock used only for "
        "watchdogs (inconclusive, never a violation).",
        "DESIGN.md 3/C20",
    )


# Additions made when the workloads were widened against independently seeded changes
# (appended to the level text by gen_manifest.py).
COMMON = (" A share of the shards runs with DEBUG logging on and every record formatted (logging is a workload "
          "dimension, rtmon/logmode.py); where shards carry a protocol version, pairs of them also run co-resident in one "
          "process, in both orders.")
EXTRA = {
    "C01": " Reads may coalesce everything that arrives within 2 ms and duplicates may share one read; payloads reach 186 "
           "bytes (the reference NCP endpoint takes 220-byte frames); a host-requested reset in mid-session - also of a "
           "link the host considers failed - must not hand old-session frames up a second time (only duplicates are "
           "judged there: across a reset the two ends are briefly in different sessions)."
           ' One direction of the line also goes dark until the host has used up its attempts (every acknowledgement lost; every host frame lost or corrupted) while the NCP is alive; on the line working again the NCP goes on sending, and whatever it sees acknowledged by the host - which considers the link failed - must still have been handed up exactly once. The whole stack is also run on the faulty line (rtmon/fullstack.py: real ControllerApplication + EZSP + Gateway + AshProtocol created through ControllerApplication.connect(), against the independent NCP-side ASH endpoint and the stateful NCP model; unicasts awaiting confirmations, incoming messages and keep-alives under a seeded fault rate, every protocol version): the EZSP frames handed up on either side must be an in-order duplicate-free subsequence of what the other side submitted, complete on a link that never failed and ended clean.',
    "C02": " Macro symbols include ERROR / RSTACK code 0x00 and data fields of exactly 256 and 257 bytes; mutated streams "
           "use payloads up to 300 bytes and codes 0x00 / 0xFF."
           " Over-long flag-free runs are also ended by CANCEL and by SUBSTITUTE (not only by FLAG) and followed by a valid frame, which must be delivered."
           ' For a well-formed DATA frame that is not the next expected one the reference fixes the number of the answer, not its kind (ACK or NAK).'
           ' Several answers in one write are decoded frame by frame.',
    "C03": " A fifth payload pattern makes the randomised data field walk through every ordered pair of reserved / "
           "reserved^0x20 bytes; every DATA frame is also fed to the running receiver as the reference's wire image "
           "(decode direction end to end); the stuffing helpers are compared with the reference on all 2-byte strings "
           "and all strings up to length 4 over the escape-adjacent alphabet; the running-host part is repeated with "
           "DEBUG logging on.",
    "C04": " Several frames are also delivered in ONE read (all pairs from every state, seeded longer reads): one answer "
           "per DATA frame, in order; the rule is also checked after the host gave up on a send of its own (budget "
           "exhausted by timeouts or NAKs): an ERROR frame still reports its code, an RSTACK still restarts numbering."
           " The rule is also checked after the host itself called send_reset() (once, twice; in mid-walk) and the RSTACK has not arrived yet: DATA, ERROR and the rest are still treated by the rule."
           ' The kind of the answer (ACK / NAK) is demanded only where the property fixes it - an ACK for a frame that is accepted; a frame that is not accepted must draw exactly one ACK or NAK carrying the next expected number.',
    "C05": " After a failure the host's own RST is written and another send is issued before the RSTACK arrives: still "
           "no DATA frame may be written; callers are cancelled while their frame is in flight (the frame stays the "
           "link's business: window and budget rules continue to apply); an ERROR frame arriving after the host gave up "
           "on its own is reported with its code."
           ' NAK reactions include NAKs that ask for another frame than the outstanding one (one behind, three ahead): the repeat must follow at once and keep the frame number the send started with.'
           ' Payloads are as long as real EZSP frames get (40 and 180 bytes; which sends carry them varies per case), so that every repeat can be compared byte for byte in every logging mode.'
           ' Outcomes are classified by exception family.',
    "C06": " The seeded part also uses the route / extended-timeout set-up commands (packet-send class) and ordinary "
           "commands whose frame ID means something else in another protocol version; the simulated NCP sets the "
           "callbackPending / overflow frame-control bits on responses."
           ' Queued callers are also cancelled 0..3 loop iterations after the frame that ends the command ahead of them (the slot changing hands); a send cancelled by its caller may still go out (the link layer shields it) and be answered under a sequence number nobody awaits; replies are also doubled within one loop iteration. Outcomes are classified by exception family (isinstance), and which exception a failed send raises is not judged.',
    "C07": " Keyword calls are also made in reversed / shuffled order and mixed with a positional prefix; an "
           "invalidCommand frame answering pending commands of several response layouts must be decoded with its own "
           "schema; half of the shards use a socket:// device path; every unsolicited frame is fed twice in a row and "
           "must be delivered twice."
           " Values that one of bellows' own field types decodes from bytes but cannot encode and decode back to themselves are violations of the codec clause (they used to be left out of the generated tuples)."
           " Arguments are also passed as instances of harness-made sub-classes whose own wire layout differs from the declared type's (a struct with one integer field re-declared wider, an integer with its own serialize()): the call must serialise them as the declared type; every shard starts with a command that ends by its timeout, and callback frames later arrive under that sequence number.",
    "C08": " Truncations are repeated with other frame-control bytes (overflow / truncated / callback-pending / reserved "
           "bits); the pending command's caller is cancelled and its well-formed response delivered before the "
           "cancelled task has run its clean-up."
           " A well-formed reply of the pending command's own kind is also injected under neighbouring sequence numbers (must not complete it); after a frame consumed a pending command's slot the command is waited out - it must still end, by its timeout at the latest; a command may end with an error on its own malformed response (own sequence number and frame ID).",
    "C09": " Duplicates are produced both in a read of their own and within one read (an RSTACK doubled in one read "
           "must not fail bring-up); a late-booting socket NCP may also read the queued RST once it is up (boot RSTACK "
           "and answer RSTACK in one read); a raw command and a handler-implemented helper are used after every "
           "negotiation; a second task issues a command while the reset is in progress; the sequence ends with stop_ezsp + "
           "startup_reset + write_config on the same connection (ControllerApplication._reset), which must reset the NCP "
           "and renegotiate from the legacy format; an exception escaping the receive callback is treated as asyncio's "
           "socket transports do (close, connection_lost) on socket paths and as serial-port transports do (logged) on "
           "serial paths."
           " An NCP callback frame - of every frame number 0..7 in turn - is on the wire when the host's RST of the second reset is written, so it is read between RST and RSTACK.",
    "C10": " Failure kinds include an NCP that rejects the next one or three DATA frames with a NAK and is silent from "
           "then on; every post-registration crash point is repeated after a history in which the NCP already failed "
           "once before any application was attached; the NCP takes 4 ms to execute a command on half of the cases; the "
           "caller of the in-flight command is cancelled in the very loop iteration in which the failure is processed; "
           "both transport behaviours for an exception escaping the receive callback alternate."
           ' Reset requests are attributed to a deliberate close only if they follow it; a silent NCP counts as observable only for a DATA frame it had not acknowledged before it fell silent (both independent of how the command / link timeouts are tuned).'
           ' A command issued after the failure must raise at once (whatever it raises) and write nothing.',
    "C11": " One or two further reset requests are made on the same gateway after the first ended by completion, "
           "timeout, failure code or a failing RST write (write error, port closing); an NCP DATA frame - new, or a "
           "retransmission of one the host already took - may arrive between the RST and the RSTACK; a host DATA frame "
           "may still be unacknowledged at the reset, with another one queued behind it; numbering is also checked "
           "after a completed start-up wait following prior traffic; the waiter-release clause is repeated with the "
           "gateway in its own thread (use_thread=True, real time)."
           " The connection is also lost (error, EOF, clean close) while a host DATA frame is unacknowledged and another is queued."
           ' Loss kinds include the host itself closing the port (Gateway.close()) with a waiter pending; exceptions are classified by family (any connection / OS error releases a waiter, any TimeoutError sub-class is the timeout).',
    "C12": " Refusals and failed confirmations are repeated with every other status code of the reply's status family; "
           "confirmations of every outgoing-message type carrying the request's tag but another destination / table "
           "index must not complete it; the application is disconnected while accepted unicasts await confirmation."
           " Request bookkeeping is found by its (destination, tag) key in whatever container the application object holds it (seen while in flight, gone at quiescence); the number of enqueue attempts follows the tree's RETRY_DELAYS. The whole stack is also run on the faulty line (rtmon/fullstack.py: real ControllerApplication + EZSP + Gateway + AshProtocol created through ControllerApplication.connect(), against the independent NCP-side ASH endpoint and the stateful NCP model; unicasts awaiting confirmations, incoming messages and keep-alives under a seeded fault rate, every protocol version): a unicast may return only if its own acceptance and its own success confirmation had been delivered to the host by then, may raise a delivery error only after a refusal / failed confirmation / busy answers through the last attempt, and leaves nothing behind."
           ' Packets carry every priority level zigpy defines (and none).',
    "C13": " Mixed shards keep applications of several protocol versions alive in one process; the same application "
           "object is reconnected to NCPs of other versions across the v14 boundary; the node's own network address is "
           "changed mid-run; the network information is re-read while unicasts keep arriving; trust-centre join "
           "callbacks also come in bursts of two or three, and events are judged after the loop had time."
           " Join and leave callbacks also name devices the application already has in its device table, under the same or another network address."
           " The whole stack is also run on the faulty line (rtmon/fullstack.py: real ControllerApplication + EZSP + Gateway + AshProtocol created through ControllerApplication.connect(), against the independent NCP-side ASH endpoint and the stateful NCP model; unicasts awaiting confirmations, incoming messages and keep-alives under a seeded fault rate, every protocol version): the packets handed to zigpy must be exactly the incoming-message callbacks the host's EZSP layer received - once each, in order, field for field - whatever ASH retransmitted or the line duplicated."
           ' Every ~100 callbacks a command times out, and callbacks then arrive under its sequence number.',
    "C14": " A link key that is not the last one may be refused by the NCP (the others must still make the round trip); "
           "frame counter 0 is written over an NCP that holds a non-zero counter from an earlier network."
           " Every third NCP sees two or three restores in a row, the later ones often for the (restored) address it runs with at that moment."
           " About half of the later restores on one application are read-modify-write: what the application read back, with one setting changed, written again - the objects handed in share their containers with the application's own state.",
    "C15": " Start-up is also run with several coordinator endpoints that share groups, and again on the same object "
           "after the NCP cleared or lost entries; pairs / triples of calls for different groups overlap in time; "
           "rejections are repeated with every status code of the reply's family; group changes are also made through "
           "the coordinator's endpoint of a started application (add_to_group / remove_from_group)."
           " In-use initial entries sit on endpoints 1, 2, 127, 242 and 255 and on network indexes 0, 1 and 255."
           ' What group id a cleared entry carries is open (endpoint 0 = not programmed).',
    "C16": " Rejections carry status codes cycling through the reply's whole status family; overrides equal to the "
           "library's own default are user values too; the configuration is also written through "
           "ControllerApplication.connect() and _reset() on every version."
           " The library's defaults are observed (what write_config({}) sets on an NCP that reports 0 for every setting), not read from its tables.",
    "C17": " 'Quiet' shards deliver nothing but the operations' own completing events, so the same status value repeats "
           "with nothing in between; 'overlap' shards run scan, poll, ZLL scan and a foreign add/remove_callback with "
           "every interleaving of their start and end events (non-LIFO lifetimes): each list command returns exactly "
           "the results delivered between its issue and its completion and nothing stays registered."
           " 'status_overlap' shards run two or three operations that wait for a stack status at the same time (formNetwork, leaveNetwork, bare waiters as the application's bring-up uses them), one of them sometimes cancelled: each completes at the first matching event, none is skipped.",
    "C18": " Every undefined unified value below 0x20000 and structured 32-bit values (legacy codes in the low byte under various high bytes) are included."
           ' Every 8-bit code is converted again and again - one family five times over before the other, then the other way round, then 20 000 conversions in random order mixed with unified statuses - and each result is judged like the first (the conversion is a function of its argument).'
           ' Which family a fresh process converts first varies per shard (one mixes both from the first call); two shards run with Python warnings turned into errors.',
    "C19": " Free-buffer reports vary from feed to feed (including nearly none); the all-success period run carries "
           "isolated failures; on v4 the EZSP object is closed for good while the watchdog keeps feeding."
           ' About a third of the successful feeds on v5+ have their free-buffer read answered with an error status and no value: still successful feeds.'
           ' Which exception a raising feed raises is open; on v4 the no-op must come first and no counter read may be made.',
    "C20": " Wrappers are also looked up once (on the owner loop, on another loop, in a thread without a loop) and called "
           "later from elsewhere; calls are made while the owner's loop is open but not running and must execute once it "
           "runs; a quarter of the coroutine calls are fire-and-forget and must execute all the same; coroutine calls "
           "handed to the owner's loop before force_stop() - running or still queued behind a busy loop - must come back "
           "to their callers; a proxy that is the only holder of its object keeps it alive across garbage collections."
           " Coroutine calls that need up to 1.6 s to unwind after force_stop() must still relay what they end with (value, own exception, cancellation); the verdict is taken once the owner thread has ended."
           " Two shards run the proxies where bellows itself puts them - the real uart.connect(use_thread=True) with a fake serial port inside the serial thread: frames, an ERROR frame and a connection loss produced there must reach the application on its own thread and loop, gateway calls from the caller's loop must execute on the serial thread, private / non-callable attributes are refused, and calls made after the serial loop has closed are dropped without executing or blocking (all waits up to 20 s of real time; normally milliseconds).",
}
