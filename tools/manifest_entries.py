"""Per-property manifest texts (one place to edit)."""


def register(add):
    add(
        "C03",
        "exploration",
        "differential runtime monitor: real encoder/parser/running host vs independent ASH codec; exhaustive over finite field spaces",
        "Every frame class is encoded and parsed by the real code and compared bit for bit with an "
        "independently written ASH codec (bitwise CRC-CCITT, LFSR, stuffing): all control-field values, all "
        "256 reset codes, all 256 control bytes, payload lengths 0..200 x 4 patterns, the bytes the running "
        "host hands to transport.write (DATA incl. retransmissions, ACK, NAK, RST) and every 1-/2-bit "
        "corruption of short frames (parse_frame and end-to-end).  Held on what was enumerated; the finite "
        "field spaces are covered completely, payload contents by 4 patterns per length.",
        "Trusted: rtmon/ashref.py as a reading of UG101; public names bellows.ash.parse_frame and the six "
        "frame classes; CPython asyncio.",
        "DESIGN.md 3/C03",
    )
