#!/usr/bin/env python3
"""False-alarm self-test: apply each property-preserving change (benign/<id>/patch.diff, written by
independent sub-agents that were asked to keep a property TRUE while refactoring, re-tuning or using
the latitude the property leaves) to a scratch copy of /repo under /tmp and run every check whose
anchored files the patch touches.  Expected: exit status 0 everywhere.  A 1 is a false alarm to be
triaged (or the change does break a property after all); a 2 means the harness leans on a detail the
change removed.  /repo is never touched.

usage: tools/benign.py [--only SUBSTR] [--prop Cxx] [--jobs N] [--workers N] [--tier T] [--missing] [--all-checks]
Results: selftest/results_benign.json (merged by name).
"""
from __future__ import annotations

import argparse
import concurrent.futures as cf
import json
import re
import shutil
import subprocess
import sys
from pathlib import Path

ROOT = Path(__file__).resolve().parent.parent
sys.path.insert(0, str(ROOT / "tools"))
import selftest as st  # noqa: E402

ALL = [f"C{i:02d}" for i in range(1, 21)]
BY_FILE = [
    (r"bellows/ash\.py", ["C01", "C02", "C03", "C04", "C05", "C09", "C10", "C11", "C12", "C13"]),
    (r"bellows/uart\.py", ["C01", "C09", "C10", "C11", "C12", "C13", "C20"]),
    (r"bellows/thread\.py", ["C20", "C11", "C12", "C13"]),
    (r"bellows/multicast\.py", ["C15"]),
    (r"bellows/ezsp/protocol\.py", ["C01", "C13", "C06", "C07", "C08", "C09", "C10", "C12", "C17", "C19"]),
    (r"bellows/ezsp/__init__\.py", ["C01", "C13", "C06", "C07", "C08", "C09", "C10", "C12", "C14", "C15", "C16", "C17", "C19"]),
    (r"bellows/ezsp/v\d+/", ["C07", "C08", "C09", "C12", "C13", "C14", "C16", "C19"]),
    (r"bellows/ezsp/config\.py", ["C16", "C09"]),
    (r"bellows/zigbee/", ["C12", "C13", "C14", "C15", "C16", "C17", "C19"]),
    (r"bellows/types/", ["C03", "C07", "C08", "C13", "C14", "C18"]),
    (r"bellows/config/", ["C16", "C09"]),
    (r"bellows/exception\.py", ["C06", "C10", "C17"]),
]


def checks_for(patch: Path, prop: str, everything: bool):
    if everything:
        return ALL
    files = re.findall(r"^\+\+\+ b/(\S+)", patch.read_text(), re.M)
    out = {prop}
    for f in files:
        for pat, cs in BY_FILE:
            if re.match(pat, f):
                out.update(cs)
    return sorted(out)


def one(m, args):
    name = m["name"]
    d = st.make_copy("benign-" + name)
    try:
        p = subprocess.run(["patch", "-p1", "-s", "-i", m["patch"]], cwd=str(d), capture_output=True, text=True)
        if p.returncode != 0:
            return name, {"error": "patch does not apply: " + p.stdout[-300:] + p.stderr[-300:]}
        res = {"prop": m["prop"], "kind": m.get("kind"), "tier": args.tier}
        if args.tests:
            res["tests"] = st.run_tests(d)
        res["checks"] = st.run_checks(d, m["checks"], args.tier, args.workers)
        # keep the alarm texts: they are what has to be triaged
        # a change written to preserve ONE property may break another one for real (triaged by hand, recorded in its
        # meta.json as "breaks": {"Cxx": "why"}): such alarms are the checks doing their job, not false alarms
        res["expected_alarms"] = sorted(c for c, v in res["checks"].items() if v["rc"] == 1 and c in m.get("breaks", {}))
        res["alarms"] = sorted(c for c, v in res["checks"].items() if v["rc"] == 1 and c not in m.get("breaks", {}))
        res["inconclusive"] = sorted(c for c, v in res["checks"].items() if v["rc"] not in (0, 1))
        res["silent"] = not res["alarms"] and not res["inconclusive"]
        return name, res
    finally:
        shutil.rmtree(d, ignore_errors=True)


def main():
    ap = argparse.ArgumentParser()
    ap.add_argument("--only")
    ap.add_argument("--prop")
    ap.add_argument("--jobs", type=int, default=4)
    ap.add_argument("--workers", type=int, default=4)
    ap.add_argument("--tier", default="quick")
    ap.add_argument("--tests", action="store_true")
    ap.add_argument("--missing", action="store_true")
    ap.add_argument("--all-checks", action="store_true")
    ap.add_argument("--checks", help="comma-separated list overriding the file-based choice")
    ap.add_argument("--skip", help="comma-separated checks left out of the file-based choice (never the change's own property)")
    args = ap.parse_args()
    muts = []
    for meta in sorted((ROOT / "benign").glob("*/meta.json")):
        j = json.loads(meta.read_text())
        patch = meta.parent / "patch.diff"
        cs = args.checks.split(",") if args.checks else checks_for(patch, j["property"], args.all_checks)
        if args.skip:
            cs = [c for c in cs if c == j["property"] or c not in args.skip.split(",")]
        muts.append({"name": meta.parent.name, "prop": j["property"], "kind": j.get("kind"), "patch": str(patch), "checks": cs,
                     "breaks": j.get("breaks", {})})
    if args.only:
        muts = [m for m in muts if args.only in m["name"]]
    if args.prop:
        muts = [m for m in muts if m["prop"] == args.prop]
    resfile = ROOT / "selftest" / "results_benign.json"
    results = json.loads(resfile.read_text()) if resfile.exists() else {}
    if args.missing:
        muts = [m for m in muts if m["name"] not in results]
    with cf.ThreadPoolExecutor(args.jobs) as ex:
        for name, res in ex.map(lambda m: one(m, args), muts):
            try:
                latest = json.loads(resfile.read_text()) if resfile.exists() else {}
            except Exception:  # noqa: BLE001
                latest = {}
            if name in latest and "checks" in latest[name] and "checks" in res:
                merged = dict(latest[name]["checks"])
                merged.update(res["checks"])
                res["checks"] = merged
                brk = next((m_.get("breaks", {}) for m_ in muts if m_["name"] == name), {})
                res["expected_alarms"] = sorted(c for c, v in merged.items() if v["rc"] == 1 and c in brk)
                res["alarms"] = sorted(c for c, v in merged.items() if v["rc"] == 1 and c not in brk)
                res["inconclusive"] = sorted(c for c, v in merged.items() if v["rc"] not in (0, 1))
                res["silent"] = not res["alarms"] and not res["inconclusive"]
            latest[name] = res
            resfile.write_text(json.dumps(latest, indent=1, sort_keys=True) + "\n")
            if "error" in res:
                print(f"{name:55s} ERROR {res['error']}")
                continue
            cs = " ".join(f"{c}:{v['rc']}" for c, v in res["checks"].items())
            keys = [k for v in res["checks"].values() for k in v["keys"]][:4]
            print(f"{name:55s} {'silent' if res['silent'] else 'ALARM' if res['alarms'] else 'INCONCLUSIVE'} {cs} {keys}", flush=True)
            for c, v in res["checks"].items():
                if v["tail"]:
                    print("     ", c, v["tail"].replace("\n", "\n      ")[-700:])
    try:
        st.SCRATCH.rmdir()
    except OSError:
        pass


if __name__ == "__main__":
    main()
