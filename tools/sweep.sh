#!/bin/sh
# usage: tools/sweep.sh <tier> <seeds...>   -- runs every registered check for each seed, prints one line per run
TIER="$1"; shift
cd "$(dirname "$0")/.."
for SEED in "$@"; do
  for ID in C01 C02 C03 C04 C05 C06 C07 C08 C09 C10 C11 C12 C13 C14 C15 C16 C17 C18 C19 C20; do
    START=$(date +%s)
    OUT=$(VERIF_SEED=$SEED VERIF_EVIDENCE_DIR="${SWEEP_EV:-/tmp/rtmon-sweep-ev}" VERIF_REPLAY_DIR="${SWEEP_EV:-/tmp/rtmon-sweep-ev}/replays" ./check $ID $TIER 2>&1)
    RC=$?
    END=$(date +%s)
    echo "seed=$SEED tier=$TIER $ID rc=$RC $((END-START))s $(echo "$OUT" | grep -E 'VIOLATION|INCONCLUSIVE|violation key' | head -3 | tr '\n' ' ' | cut -c1-400)"
  done
done
