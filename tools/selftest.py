#!/usr/bin/env python3
"""Mutant self-test: apply each deliberate break (selftest/mutants.py) or seeded change
(seeded/<id>/patch.diff) to a *scratch copy* of /repo under /tmp, run the named checks
against the copy (VERIF_BELLOWS_PATH) and report caught / missed.  /repo is never touched.

usage: tools/selftest.py [--only SUBSTR] [--prop Cxx] [--tests] [--seeded] [--jobs N] [--tier T]
   --tests   also run the repository's baseline tests in the scratch copy (a mutant that
             fails them is not a "change the tests miss")
Results: selftest/results.json (merged by mutant name).
"""
from __future__ import annotations

import argparse
import concurrent.futures as cf
import json
import os
import shutil
import subprocess
import sys
import time
from pathlib import Path

ROOT = Path(__file__).resolve().parent.parent
sys.path.insert(0, str(ROOT / "selftest"))
SCRATCH = Path("/tmp/rtmon-selftest")
BASELINE = json.loads(Path("/root/.vp/BASELINE.json").read_text()) if Path("/root/.vp/BASELINE.json").exists() else {}


def make_copy(name: str) -> Path:
    d = SCRATCH / f"{name}-{os.getpid()}"  # several runs may be going on at once
    if d.exists():
        shutil.rmtree(d)
    d.mkdir(parents=True)
    subprocess.run(["rsync", "-a", "--exclude", ".git", "--exclude", "__pycache__", "/repo/", str(d) + "/"], check=True)
    return d


def run_checks(d: Path, checks, tier, workers):
    out = {}
    for c in checks:
        env = dict(os.environ, VERIF_BELLOWS_PATH=str(d), VERIF_EVIDENCE_DIR=str(d / ".ev"),
                   VERIF_REPLAY_DIR=str(d / ".rp"), VERIF_WORKERS=str(workers),
                   VERIF_SCRATCH=f"/dev/shm/rtmon-st-{d.name}-{c}-{os.getpid()}")
        t0 = time.time()
        p = subprocess.run([str(ROOT / "check"), c, tier], env=env, capture_output=True, text=True, timeout=3600)
        keys = sorted({ln.split("key=")[1].split(":")[0] for ln in p.stdout.splitlines() if "violation key=" in ln})
        out[c] = {"rc": p.returncode, "keys": keys[:6], "wall": round(time.time() - t0, 1),
                  "tail": "" if p.returncode in (0, 1) else p.stdout[-600:]}
    return out


def run_tests(d: Path):
    p = subprocess.run(
        ["/venv/bin/python", "-m", "pytest", "-q", "-p", "no:cacheprovider", "--timeout=60",
         "--continue-on-collection-errors", "-p", "no:sugar", "--junitxml", str(d / ".junit.xml")],
        cwd=str(d), capture_output=True, text=True, env=dict(os.environ, PYTHONDONTWRITEBYTECODE="1"))
    # compare with the stable baseline: every baseline test must still pass
    import xml.etree.ElementTree as ET

    passed = set()
    try:
        for tc in ET.parse(d / ".junit.xml").getroot().iter("testcase"):
            if not any(ch.tag in ("failure", "error", "skipped") for ch in tc):
                passed.add(f"{tc.get('classname')}::{tc.get('name')}")
    except Exception:  # noqa: BLE001
        pass
    stable = set(BASELINE.get("stable_pass", []))
    missing = sorted(stable - passed)
    return {"baseline_pass": not missing, "broken": missing[:5]}


def one(m, args):
    name = m["name"]
    d = make_copy(name)
    try:
        if "patch" in m:
            p = subprocess.run(["patch", "-p1", "-s", "-i", m["patch"]], cwd=str(d), capture_output=True, text=True)
            if p.returncode != 0:
                return name, {"error": "patch does not apply: " + p.stdout[-300:] + p.stderr[-300:]}
        else:
            f = d / m["file"]
            s = f.read_text()
            if s.count(m["old"]) != m.get("count", 1):
                return name, {"error": f"old text occurs {s.count(m['old'])}x, expected {m.get('count', 1)}"}
            f.write_text(s.replace(m["old"], m["new"]))
        res = {"prop": m["prop"], "tier": args.tier or m.get("tier", "quick")}
        if args.tests:
            res["tests"] = run_tests(d)
        res["checks"] = run_checks(d, m["checks"], res["tier"], args.workers)
        res["caught"] = any(v["rc"] == 1 for v in res["checks"].values())
        return name, res
    finally:
        shutil.rmtree(d, ignore_errors=True)


def main():
    ap = argparse.ArgumentParser()
    ap.add_argument("--only")
    ap.add_argument("--prop")
    ap.add_argument("--tests", action="store_true")
    ap.add_argument("--seeded", action="store_true")
    ap.add_argument("--jobs", type=int, default=4)
    ap.add_argument("--workers", type=int, default=4)
    ap.add_argument("--tier")
    ap.add_argument("--missing", action="store_true", help="only entries that have no result recorded yet")
    args = ap.parse_args()
    muts = []
    if args.seeded:
        for meta in sorted((ROOT / "seeded").glob("*/meta.json")):
            j = json.loads(meta.read_text())
            if j.get("disputed") and not args.only:
                continue  # kept for the record, not counted (see its meta.json)
            muts.append({"name": "seeded-" + meta.parent.name, "prop": j["property"],
                         "checks": j.get("checks", [j["property"]]), "patch": str(meta.parent / "patch.diff"),
                         "tier": j.get("tier", "quick")})
    else:
        from mutants import M

        muts = list(M)
    if args.only:
        muts = [m for m in muts if args.only in m["name"]]
    if args.prop:
        muts = [m for m in muts if m["prop"] == args.prop]
    resfile = ROOT / "selftest" / ("results_seeded.json" if args.seeded else "results.json")
    results = json.loads(resfile.read_text()) if resfile.exists() else {}
    if args.missing:
        muts = [m for m in muts if m["name"] not in results]
    with cf.ThreadPoolExecutor(args.jobs) as ex:
        for name, res in ex.map(lambda m: one(m, args), muts):
            results[name] = res
            # written after every result, merged with what another run may have recorded meanwhile
            try:
                latest_ = json.loads(resfile.read_text()) if resfile.exists() else {}
            except Exception:  # noqa: BLE001
                latest_ = {}
            latest_[name] = res
            resfile.write_text(json.dumps(latest_, indent=1, sort_keys=True) + "\n")
            if "error" in res:
                print(f"{name:45s} ERROR {res['error']}")
                continue
            cs = " ".join(f"{c}:rc={v['rc']}({v['wall']}s)" for c, v in res["checks"].items())
            ts = "" if "tests" not in res else (" tests=ok" if res["tests"]["baseline_pass"] else f" tests=BROKEN{res['tests']['broken'][:2]}")
            keys = [k for v in res["checks"].values() for k in v["keys"]][:3]
            print(f"{name:45s} {'CAUGHT' if res['caught'] else 'MISSED'} {cs}{ts} {keys}")
            for v in res["checks"].values():
                if v["tail"]:
                    print("     ", v["tail"].replace("\n", "\n      ")[-500:])
    # merge with what another run may have recorded meanwhile; remove only our own scratch copies
    latest = json.loads(resfile.read_text()) if resfile.exists() else {}
    latest.update({m["name"]: results[m["name"]] for m in muts if m["name"] in results})
    resfile.write_text(json.dumps(latest, indent=1, sort_keys=True) + "\n")
    try:
        SCRATCH.rmdir()
    except OSError:
        pass


if __name__ == "__main__":
    main()
