#!/usr/bin/env python3
"""Imports one property-preserving change written by a sub-agent into /verif/benign/<id>/ after
confirming in a scratch copy of /repo that the patch applies and the stable baseline tests still pass.
usage: tools/import_benign.py <worktree> <k> <benign-id> <property> <kind A|B|C> "<what changes observably>"
"""
from __future__ import annotations

import json
import shutil
import subprocess
import sys
import xml.etree.ElementTree as ET
from pathlib import Path

ROOT = Path(__file__).resolve().parent.parent
BASELINE = json.loads(Path("/root/.vp/BASELINE.json").read_text())


def rerun_broken(scratch, broken):
    """Timing-based tests (tests/test_thread.py, test_ash_end_to_end) flake on a loaded machine: a test
    counted as broken is re-run on its own, twice; it stays broken only if it fails both times."""
    still = []
    for t in broken:
        mod, name = t.split("::", 1)
        node = mod.replace(".", "/") + ".py::" + name
        ok = False
        for _ in range(2):
            p = subprocess.run(["/venv/bin/python", "-m", "pytest", "-q", "-p", "no:cacheprovider", "-p", "no:sugar", "--timeout=120", node],
                               cwd=scratch, capture_output=True, text=True)
            if p.returncode == 0:
                ok = True
                break
        if not ok:
            still.append(t)
    return still


def main():
    wt, k, bid, prop, kind, what = sys.argv[1:7]
    src = Path(wt) / "BENIGN" / k
    dst = ROOT / "benign" / bid
    scratch = Path("/tmp/rtmon-import") / ("b-" + bid)
    if scratch.exists():
        shutil.rmtree(scratch)
    scratch.mkdir(parents=True)
    subprocess.run(["rsync", "-a", "--exclude", ".git", "--exclude", "__pycache__", "--exclude", "BENIGN", "--exclude", "SEEDED", "/repo/", str(scratch) + "/"], check=True)
    p = subprocess.run(["patch", "-p1", "-s", "-i", str(src / "patch.diff")], cwd=scratch, capture_output=True, text=True)
    report = {"property": prop, "kind": kind, "what_changes": what, "ran": [{"step": "apply patch", "rc": p.returncode}]}
    broken = ["?"]
    if p.returncode == 0:
        subprocess.run("/venv/bin/python -m pytest -q -p no:cacheprovider -p no:sugar --timeout=120 --continue-on-collection-errors "
                       f"--junitxml {scratch}/.junit.xml tests", cwd=scratch, shell=True, capture_output=True, text=True, timeout=1800)
        passed = set()
        for tc in ET.parse(scratch / ".junit.xml").getroot().iter("testcase"):
            if not any(ch.tag in ("failure", "error", "skipped") for ch in tc):
                passed.add(f"{tc.get('classname')}::{tc.get('name')}")
        broken = sorted(set(BASELINE["stable_pass"]) - passed)
        if broken and len(broken) <= 6:
            broken = rerun_broken(scratch, broken)
        report["ran"].append({"step": "baseline tests with the change", "stable_tests_broken": broken[:5], "n_passed": len(passed)})
    ok = p.returncode == 0 and not broken
    report["confirmed"] = ok
    if ok:
        dst.mkdir(parents=True, exist_ok=True)
        shutil.copy(src / "patch.diff", dst / "patch.diff")
        if (src / "notes.md").exists():
            shutil.copy(src / "notes.md", dst / "notes.md")
        (dst / "meta.json").write_text(json.dumps(report, indent=1) + "\n")
        print("IMPORTED", dst)
    else:
        print("REJECTED", bid, "patch rc", p.returncode, "broken", broken[:3])
    shutil.rmtree(scratch, ignore_errors=True)


if __name__ == "__main__":
    main()
