#!/usr/bin/env python3
"""Generates /verif/MANIFEST.json from the table below (kept in one place so that the
manifest always validates).  Run: python3 tools/gen_manifest.py"""
import json
import sys
from pathlib import Path

ROOT = Path(__file__).resolve().parent.parent

BASELINE_CMD = (
    "cd /repo && env -u BELLOWS_VERIF /venv/bin/python -m pytest -ra -q -p no:cacheprovider "
    "--timeout=900 --continue-on-collection-errors"
)

# id -> (category, technique, level text, level note, design ref)
CHECKS = {}


def add(pid, category, technique, text, note, ref):
    CHECKS[pid] = dict(category=category, technique=technique, text=text, note=note, ref=ref)


sys.path.insert(0, str(ROOT / "tools"))
from manifest_entries import register, EXTRA, COMMON  # noqa: E402

register(add)

ALL = [f"C{n:02d}" for n in range(1, 21)]


def main():
    checks = []
    for pid in ALL:
        if pid not in CHECKS:
            continue
        c = CHECKS[pid]
        checks.append(
            {
                "property_id": pid,
                "quick_cmd": f"./check {pid} quick",
                "thorough_cmd": f"./check {pid} thorough",
                "evidence_file": f"evidence/{pid}.json",
                "replay_cmd_template": f"./check {pid} --replay {{path}}",
                "engine": "rtmon",
                "level_claimed": {
                    "category": c["category"],
                    "text": c["text"] + EXTRA.get(pid, "") + COMMON,
                    "design_ref": c["ref"],
                },
                "level_note": c["note"],
                "technique": c["technique"],
            }
        )
    na = [
        {
            "property_id": pid,
            "reason": "check not built yet in this session; see DESIGN.md section 3 for the planned "
            "runtime monitor (the technique applies, nothing is claimed until the check exists)",
        }
        for pid in ALL
        if pid not in CHECKS
    ]
    m = {
        "version": 1,
        "setup_cmd": "sh ./setup.sh",
        "hooks": {
            "guard": "BELLOWS_VERIF",
            "enable": "no source hooks: every observation point is a boundary the harness owns or "
            "wraps from outside (transport.write, protocol callbacks, gateway.send_data, "
            "EZSP.frame_received, registered callbacks); ./check exports BELLOWS_VERIF=1 for "
            "completeness and imports bellows from /repo's working tree in fresh subprocesses",
            "baseline_off_cmd": BASELINE_CMD,
            "source_commits": [],
            "add_only": True,
        },
        "engines": [
            {
                "name": "rtmon",
                "path": "rtmon/",
                "serves_properties": sorted(CHECKS),
                "kind_free_text": "runtime monitoring: real bellows code on a deterministic virtual-time "
                "asyncio loop, independent reference codecs / receiver / NCP models as differential "
                "oracles, offline history checkers, icontract postconditions; sharded over 16 "
                "subprocesses; three-valued verdicts (0 held, 1 violation, 2 inconclusive)",
            }
        ],
        "checks": checks,
        "notes": "See DESIGN.md.  Known findings live in KNOWN_FINDINGS.json (never written at run time). "
        "Seeded breaking changes used to test the monitors are under seeded/.",
        "not_applicable": na,
    }
    (ROOT / "MANIFEST.json").write_text(json.dumps(m, indent=1) + "\n")
    try:
        import jsonschema

        jsonschema.validate(m, json.loads(Path("/root/.vp/MANIFEST.schema.json").read_text()))
        print("MANIFEST.json valid;", len(checks), "checks,", len(na), "not_applicable")
    except ImportError:
        print("written (jsonschema not importable here)")


if __name__ == "__main__":
    main()
