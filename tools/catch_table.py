#!/usr/bin/env python3
"""Prints the markdown catch table (mutants + seeded changes) from selftest/results*.json."""
import json
from pathlib import Path

ROOT = Path(__file__).resolve().parent.parent
for fn, title in (("results.json", "Deliberate breaks (selftest/mutants.py)"), ("results_seeded.json", "Seeded changes written by independent sub-agents (seeded/)")):
    p = ROOT / "selftest" / fn
    if not p.exists():
        continue
    res = json.loads(p.read_text())
    print(f"\n**{title}**\n")
    print("| change | property | caught by (tier) | mechanism keys reported | repository tests |")
    print("|---|---|---|---|---|")
    for name in sorted(res, key=lambda n: (res[n].get("prop", ""), n)):
        r = res[name]
        if "error" in r:
            print(f"| {name} | - | (not applied: {r['error'][:60]}) | | |")
            continue
        caught = [c for c, v in r["checks"].items() if v["rc"] == 1]
        missed = [c for c, v in r["checks"].items() if v["rc"] != 1]
        keys = sorted({k for v in r["checks"].values() for k in v["keys"]})[:3]
        tests = "" if "tests" not in r else ("pass" if r["tests"]["baseline_pass"] else "broken (" + ", ".join(t.split("::")[-1] for t in r["tests"]["broken"][:2]) + ")")
        cb = ", ".join(caught) + f" ({r['tier']})" if caught else "**missed**"
        if caught and missed:
            cb += "; not by " + ", ".join(missed)
        print(f"| {name} | {r['prop']} | {cb} | {'; '.join(keys)} | {tests} |")
