#!/bin/sh
# Installs icontract (runtime contracts) from the offline wheelhouse into /verif/.deps.
# Idempotent; called by MANIFEST.setup_cmd and by ./check when .deps is absent.
set -e
HERE="$(cd "$(dirname "$0")" && pwd)"
if [ ! -d "$HERE/.deps/icontract" ]; then
  PIP_NO_INDEX=1 /venv/bin/pip install --quiet --no-index --find-links /opt/veriftools/wheels \
      --target "$HERE/.deps" icontract >/dev/null 2>&1 || {
        echo "setup: could not install icontract from /opt/veriftools/wheels" >&2; exit 3; }
fi
exit 0
